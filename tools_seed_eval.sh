#!/bin/sh
# usage: tools_seed_eval.sh <Cxx> <mutant dir> <name>   evaluates one candidate change in a scratch worktree
# (never in /repo): suite still passes, demo fails with / passes without the change, then runs the
# property's quick check against the patched tree (VERIF_REPO) and records everything under seeded/.
P=$1; D=$2; NAME=$3
WT=/tmp/wt_eval_${P}_$NAME
OUT=/verif/seeded/${P}_$NAME
git -C /repo worktree remove --force $WT 2>/dev/null
git -C /repo worktree add -q --detach $WT HEAD || exit 9
mkdir -p $OUT
cd $WT
BASE_DEMO=$(PYTHONPATH=$WT timeout 600 /venv/bin/python $D/demo.py >/dev/null 2>&1; echo $?)
git apply $D/patch.diff || { echo "patch does not apply" > $OUT/FAILED; git -C /repo worktree remove --force $WT; exit 9; }
SUITE=$(PYTHONPATH=$WT timeout 1800 /venv/bin/python -m pytest -q -p no:cacheprovider --timeout=900 tests 2>&1 | tail -1)
rm -f $WT/bridgepoint/__oal_parsetab.py $WT/bridgepoint/__oal_lextab.py $WT/xtuml/__xtuml_parsetab.py $WT/xtuml/__xtuml_lextab.py   # demos regenerate the PLY tables from the patched grammar
MUT_DEMO=$(PYTHONPATH=$WT timeout 600 /venv/bin/python $D/demo.py >/dev/null 2>&1; echo $?)
cd /verif
VERIF_REPO=$WT VERIF_OUT=/tmp/seedout_${P}_$NAME VERIF_JOBS=${VERIF_JOBS:-8} ./check $P --tier quick > $OUT/check_quick.log 2>&1; RC=$?
cp $D/patch.diff $OUT/patch.diff; cp $D/demo.py $OUT/demo.py; cp $D/notes.md $OUT/notes.md 2>/dev/null
NV=$(grep -c "^VIOLATION" $OUT/check_quick.log)
python3 - "$P" "$NAME" "$BASE_DEMO" "$MUT_DEMO" "$SUITE" "$RC" "$NV" "$OUT" <<'PY'
import json,sys
p,name,bd,md,suite,rc,nv,out=sys.argv[1:]
log=open(out+'/check_quick.log').read().splitlines()
meta=dict(property=p, name=name, source='independent sub-agent given only the property text and a scratch worktree',
  demo_exit_unpatched=int(bd), demo_exit_patched=int(md), test_suite_with_patch=suite,
  check_cmd='VERIF_REPO=<scratch worktree with patch applied> ./check %s --tier quick' % p,
  check_exit=int(rc), violations_reported=int(nv),
  detected=(int(rc)==1 and int(nv)>0),
  confirmed_valid=(int(bd)==0 and int(md)!=0 and 'passed' in suite and 'failed' not in suite),
  first_violation=[l for l in log if l.startswith('violation in')][:3], summary_line=[l for l in log if 'tier=' in l][-1:])
try:
    meta['needs']=open(out+'/notes.md').read()[:1500]
except Exception: pass
json.dump(meta,open(out+'/meta.json','w'),indent=1)
print(p,name,'valid' if meta['confirmed_valid'] else 'INVALID','DETECTED' if meta['detected'] else 'missed', suite)
PY
git -C /repo worktree remove --force $WT
rm -rf /tmp/seedout_${P}_$NAME
