#!/bin/sh
# Build the overlay environment for the checks (offline): /venv's python + site-packages (ply,
# the repo's deps) + crosshair-tool and z3-solver from the local wheelhouse.
set -e
ROOT="$(cd "$(dirname "$0")" && pwd)"
exec 9>"$ROOT/.venv.lock"
flock 9
if [ -x "$ROOT/.venv/bin/python" ] && "$ROOT/.venv/bin/python" -c 'import crosshair, z3, ply' 2>/dev/null; then
  exit 0
fi
rm -rf "$ROOT/.venv"
/venv/bin/python -m venv "$ROOT/.venv"
echo "import site; site.addsitedir('/venv/lib/python3.12/site-packages')" > "$ROOT/.venv/lib/python3.12/site-packages/_overlay.pth"
PIP_NO_INDEX=1 "$ROOT/.venv/bin/pip" install -q --no-index --find-links /opt/veriftools/wheels crosshair-tool z3-solver
"$ROOT/.venv/bin/python" -c 'import crosshair, z3, ply; print("verif venv ready", crosshair.__version__)'
