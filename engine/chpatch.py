# CrossHair configuration for pyxtuml harness processes (loaded by chplugin.py).
#
# CrossHair patches the 3-argument type() with type(*map(deep_realize, a)).  pyxtuml's
# MetaClass.__init__ creates instance classes with type(kind, (Class,), dict(__metaclass__=self)),
# so under the tracer every class would receive a deep *copy* of its MetaClass and
# get_metaclass(inst) would return a stale object.  This replacement realises only the name and
# passes bases/namespace through by identity.  Harness configuration, not a change to pyxtuml.
import crosshair.core as core
from crosshair.core import realize
from crosshair.tracers import NoTracing
from crosshair.libimpl.builtinslib import python_type


def _type(*a):
    with NoTracing():
        if len(a) == 1:
            return python_type(a[0])
        name = realize(a[0])
        return type(str(name), tuple(a[1]), dict(a[2]))


core._PATCH_REGISTRATIONS[type] = _type


# CrossHair's patch of the builtin getattr() performs the lookup under NoTracing(), so a property
# getter reached through getattr(inst, name) (pyxtuml: derived attributes and referential attributes
# are properties, the interpreter reads attributes with getattr) would run untraced and fail on
# symbolic values.  For pyxtuml instances the lookup is done with tracing left on.
from crosshair.libimpl import builtinslib as _bl

_MISSING = object()
_orig_getattr_patch = core._PATCH_REGISTRATIONS.get(getattr)


def _getattr(obj, name, default=_MISSING):
    with NoTracing():
        special = False
        try:
            import xtuml.meta as _xm
            special = isinstance(obj, _xm.Class)
        except Exception:  # noqa
            special = False
        if special and isinstance(name, _bl.AnySymbolicStr):
            name = realize(name)
    if not special:
        if default is _MISSING:
            return _orig_getattr_patch(obj, name)
        return _orig_getattr_patch(obj, name, default)
    try:
        try:
            return type(obj).__getattribute__(obj, name)
        except AttributeError:
            return type(obj).__getattr__(obj, name)
    except AttributeError:
        if default is _MISSING:
            raise
        return default


if _orig_getattr_patch is not None:
    core._PATCH_REGISTRATIONS[getattr] = _getattr
