# CrossHair configuration for pyxtuml harness processes (loaded by chplugin.py).
#
# CrossHair patches the 3-argument type() with type(*map(deep_realize, a)).  pyxtuml's
# MetaClass.__init__ creates instance classes with type(kind, (Class,), dict(__metaclass__=self)),
# so under the tracer every class would receive a deep *copy* of its MetaClass and
# get_metaclass(inst) would return a stale object.  This replacement realises only the name and
# passes bases/namespace through by identity.  Harness configuration, not a change to pyxtuml.
import crosshair.core as core
from crosshair.core import realize
from crosshair.tracers import NoTracing
from crosshair.libimpl.builtinslib import python_type


def _type(*a):
    with NoTracing():
        if len(a) == 1:
            return python_type(a[0])
        name = realize(a[0])
        return type(str(name), tuple(a[1]), dict(a[2]))


core._PATCH_REGISTRATIONS[type] = _type
