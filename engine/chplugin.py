import os, sys
sys.path.insert(0, os.environ['VERIF_ENGINE'])
import chpatch  # noqa
