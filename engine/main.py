"""Entry point:  python -m engine.main <Cxx> [--tier quick|thorough] [--replay file]

Builds a scratch copy of /repo's working tree, regenerates the PLY tables from the grammar that
is actually in the tree, runs the property's conditions (CrossHair harnesses = E1, z3 scripts =
E2) in parallel, replays every counterexample against the same sources in a plain interpreter,
writes /verif/evidence/<id>.json and sets the exit code (0 held, 1 violation, 3 harness error).
"""
import argparse
import ast
import concurrent.futures as cf
import hashlib
import importlib
import json
import os
import re
import shutil
import subprocess
import sys
import tempfile
import time

ROOT = os.path.dirname(os.path.dirname(os.path.abspath(__file__)))
ENGINE = os.path.join(ROOT, 'engine')
HARNESS = os.path.join(ROOT, 'harness')
REPO = os.environ.get('VERIF_REPO', '/repo')
PY = os.path.join(ROOT, '.venv', 'bin', 'python')
JOBS = int(os.environ.get('VERIF_JOBS', '16'))
OUT = os.environ.get('VERIF_OUT', ROOT)      # evidence/ and replays/ go here (mutant evaluation runs redirect it)


class Cond(object):
    """One condition = one harness function (E1) or one solver script (E2) with fixed parameters."""

    def __init__(self, name, module, params=None, func='check', timeout=60, path_timeout=None,
                 bound='', symbolic=(), case_split=(), realised=(), kind='crosshair', twin=True,
                 assumptions=(), weight=1):
        self.name = name
        self.module = module
        self.params = params or {}
        self.func = func
        self.timeout = timeout
        self.path_timeout = path_timeout
        self.bound = bound
        self.symbolic = list(symbolic)
        self.case_split = list(case_split)
        self.realised = list(realised)
        self.kind = kind
        self.twin = twin
        self.assumptions = list(assumptions)
        self.weight = weight


# ------------------------------------------------------------------------------------------------
# build


def build_scratch():
    d = tempfile.mkdtemp(prefix='pyxtuml_verif_')
    ign = shutil.ignore_patterns('__pycache__', '__xtuml_*tab.py', '__oal_*tab.py', '*.pyc')
    for pkg in ('xtuml', 'bridgepoint'):
        shutil.copytree(os.path.join(REPO, pkg), os.path.join(d, pkg), ignore=ign)
    env = child_env(d)
    # /repo is an editable install: its import finder also resolves SUBMODULES of the mapped packages, so
    # `import bridgepoint.__oal_parsetab` would silently fall back to the (possibly stale) cached table in
    # /repo when the scratch copy has none, and PLY (optimize=1) would use it without any check.  The tables
    # are therefore generated here with the editable finder removed; afterwards every process finds the
    # scratch copy's own tables first.
    code = ("import sys\n"
            "sys.meta_path[:] = [f for f in sys.meta_path if 'ditable' not in getattr(f, '__name__', type(f).__name__)]\n"
            "import xtuml, bridgepoint.oal, bridgepoint.ooaofooa\n"
            "l = xtuml.ModelLoader(); l.input('')\n"
            "bridgepoint.oal.parse('')\n"
            "import os\n"
            "d = os.path.dirname(bridgepoint.oal.__file__); x = os.path.dirname(xtuml.__file__)\n"
            "assert all(os.path.exists(os.path.join(a, b)) for a, b in ((d, '__oal_parsetab.py'), (d, '__oal_lextab.py'), (x, '__xtuml_parsetab.py'), (x, '__xtuml_lextab.py'))), 'tables not generated'\n"
            "print(xtuml.__file__)\n")
    r = subprocess.run([PY, '-c', code], env=env, capture_output=True, text=True, timeout=300)
    if r.returncode != 0 or not r.stdout.strip().startswith(d):
        sys.stdout.write(r.stdout + r.stderr)
        shutil.rmtree(d, ignore_errors=True)
        raise SystemExit(3)
    return d


def child_env(scratch, extra=None):
    env = dict(os.environ)
    env['PYTHONPATH'] = os.pathsep.join([scratch, HARNESS, ENGINE, ROOT])
    env['VERIF_ENGINE'] = ENGINE
    env['VERIF_ROOT'] = ROOT
    env['VERIF_SCRATCH'] = scratch
    env['PYTHONHASHSEED'] = '0'
    env['PYTHONDONTWRITEBYTECODE'] = '1'
    if extra:
        env.update(extra)
    return env


# ------------------------------------------------------------------------------------------------
# running one condition

MSG = re.compile(r'^(?P<file>.*?):(?P<line>\d+): (?P<sev>error|info|warning): (?P<msg>.*)$')
CALL = re.compile(r'when calling (?P<fn>\w+)\((?P<args>.*?)\)(?: \(which (?:returns|raises) .*\))?$',
                  re.S)


def func_line(path, func):
    with open(path) as f:
        tree = ast.parse(f.read())
    for n in tree.body:
        if isinstance(n, ast.FunctionDef) and n.name == func:
            return n.lineno + 1
    raise KeyError('%s not in %s' % (func, path))


def func_params(path, func):
    with open(path) as f:
        tree = ast.parse(f.read())
    for n in tree.body:
        if isinstance(n, ast.FunctionDef) and n.name == func:
            return [a.arg for a in n.args.args]
    return []


def parse_call(msg, names=()):
    msg = re.sub(r' with crosshair\.patch_to_return\(.*?\)(?= \(which|$)', '', msg, flags=re.S)
    m = CALL.search(msg)
    if not m:
        return None
    try:
        call = ast.parse('f(%s)' % m.group('args'), mode='eval').body
        kw = {}
        for name, v in zip(names, call.args):
            kw[name] = ast.literal_eval(v)
        if len(call.args) > len(names):
            return None
        for k in call.keywords:
            kw[k.arg] = ast.literal_eval(k.value)
        return kw
    except Exception:
        return None


def run_crosshair(cond, scratch, workdir, twin=False):
    """Run CrossHair on one harness function; return dict(verdict, messages, cex, side records)."""
    modpath = os.path.join(HARNESS, cond.module)
    side = os.path.join(workdir, '%s%s.side' % (cond.name, '.twin' if twin else ''))
    env = child_env(scratch, {
        'VERIF_PARAMS': json.dumps(cond.params),
        'VERIF_SIDE': side,
        'VERIF_TWIN': '1' if twin else '0',
    })
    timeout = min(cond.timeout, 60) if twin else cond.timeout
    cmd = [PY, '-m', 'crosshair', 'check', '--analysis_kind=PEP316',
           '--extra_plugin', os.path.join(ENGINE, 'chplugin.py'), '--report_all',
           '--unblock', 'EVERYTHING',
           '--per_condition_timeout', str(timeout)]
    ppt = cond.path_timeout if cond.path_timeout else max(10.0, timeout / 4.0)
    cmd += ['--per_path_timeout', str(ppt)]
    cmd.append('%s:%d' % (modpath, func_line(modpath, cond.func)))
    t0 = time.time()
    try:
        r = subprocess.run(cmd, env=env, capture_output=True, text=True, cwd=workdir,
                           timeout=timeout * 4 + 120)
        out, err, rc = r.stdout, r.stderr, r.returncode
    except subprocess.TimeoutExpired as e:
        out = (e.stdout or b'').decode() if isinstance(e.stdout, bytes) else (e.stdout or '')
        err = 'wall timeout'
        rc = -9
    wall = time.time() - t0
    verdict = 'inconclusive'
    detail = ''
    cex = None
    for line in out.splitlines():
        m = MSG.match(line)
        if not m:
            continue
        msg = m.group('msg')
        if m.group('sev') == 'error':
            verdict = 'counterexample'
            detail = msg
            cex = parse_call(msg, func_params(modpath, cond.func))
            break
        if 'Confirmed over all paths' in msg:
            verdict = 'confirmed'
        elif 'Not confirmed' in msg:
            verdict = 'inconclusive'
            detail = 'Not confirmed (time budget)'
        elif 'Unable to meet precondition' in msg:
            verdict = 'inconclusive'
            detail = 'Unable to meet precondition'
        else:
            detail = msg
    if rc not in (0, 1) and verdict != 'counterexample':
        verdict = 'tool-error'
        detail = (err or out)[-800:]
    recs = []
    if os.path.exists(side):
        with open(side) as f:
            for ln in f:
                try:
                    recs.append(json.loads(ln))
                except ValueError:
                    pass
    return dict(verdict=verdict, detail=detail, cex=cex, wall=wall, recs=recs, raw=out[-2000:],
                err=err[-2000:] if err else '')


def replay(cond, scratch, args, trace=False, known=True):
    """Re-execute a counterexample in a plain interpreter against the same scratch sources."""
    extra = {'VERIF_PARAMS': json.dumps(cond.params), 'VERIF_TWIN': '0'}
    extra['VERIF_SIDE'] = ''
    if not known:
        extra['VERIF_IGNORE_KNOWN'] = '1'
    env = child_env(scratch, extra)
    cmd = [PY, os.path.join(ENGINE, 'replay.py'), os.path.join(HARNESS, cond.module), cond.func,
           json.dumps(args)]
    if trace:
        cmd.append('--trace')
    try:
        r = subprocess.run(cmd, env=env, capture_output=True, text=True, timeout=600)
    except subprocess.TimeoutExpired:
        return {'outcome': 'timeout'}
    for ln in reversed(r.stdout.splitlines()):
        if ln.startswith('REPLAY '):
            return json.loads(ln[7:])
    return {'outcome': 'error', 'detail': (r.stdout + r.stderr)[-1500:]}


def run_script(cond, scratch, workdir):
    """E2: a solver script; protocol = JSON object on the last stdout line starting 'RESULT '."""
    out_json = os.path.join(workdir, cond.name + '.result.json')
    env = child_env(scratch, {'VERIF_PARAMS': json.dumps(cond.params), 'VERIF_RESULT': out_json})
    cmd = [PY, os.path.join(HARNESS, cond.module)]
    t0 = time.time()
    try:
        r = subprocess.run(cmd, env=env, capture_output=True, text=True, cwd=workdir,
                           timeout=cond.timeout)
        rc, out, err = r.returncode, r.stdout, r.stderr
    except subprocess.TimeoutExpired:
        rc, out, err = -9, '', 'wall timeout'
    wall = time.time() - t0
    res = None
    if os.path.exists(out_json):
        with open(out_json) as f:
            res = json.load(f)
    return dict(rc=rc, res=res, wall=wall, out=out[-3000:], err=err[-3000:])


def do_cond(cond, scratch, workdir):
    if cond.kind == 'script':
        return cond, {'script': run_script(cond, scratch, workdir)}
    main = run_crosshair(cond, scratch, workdir, twin=False)
    res = {'main': main}
    if main['verdict'] == 'counterexample':
        if main['cex'] is None:
            res['replay'] = {'outcome': 'unparsed'}
        else:
            res['replay'] = replay(cond, scratch, main['cex'])
    if cond.twin:
        res['twin'] = run_crosshair(cond, scratch, workdir, twin=True)
    return cond, res


# ------------------------------------------------------------------------------------------------
# main


def ensure_venv():
    if os.path.exists(PY):
        try:
            subprocess.run([PY, '-c', 'import crosshair, z3, ply'], check=True,
                           capture_output=True, timeout=120)
            return
        except Exception:
            pass
    subprocess.run(['/bin/sh', os.path.join(ROOT, 'setup.sh')], check=True)


def main(argv=None):
    ap = argparse.ArgumentParser()
    ap.add_argument('prop')
    ap.add_argument('--tier', default=os.environ.get('VERIF_TIER', 'quick'))
    ap.add_argument('--replay')
    ap.add_argument('--only', help='regex on condition names (debugging)')
    ap.add_argument('--keep', action='store_true')
    a = ap.parse_args(argv)
    tier = a.tier if a.tier in ('quick', 'thorough') else 'quick'
    seed = int(os.environ.get('VERIF_SEED', '0') or 0)
    pid = a.prop.upper()
    t0 = time.time()
    sys.path.insert(0, HARNESS)
    sys.path.insert(0, ENGINE)
    mod = importlib.import_module(pid.lower())
    scratch = build_scratch()
    workdir = tempfile.mkdtemp(prefix='pyxtuml_verif_w_')
    try:
        if a.replay:
            return do_replay_file(mod, a.replay, scratch, pid)
        conds = mod.conditions(tier, seed)
        shutil.rmtree(os.path.join(OUT, 'replays', pid), ignore_errors=True)
        if a.only:
            conds = [c for c in conds if re.search(a.only, c.name)]
        results = []
        conds_sorted = sorted(conds, key=lambda c: -c.timeout * c.weight)
        with cf.ThreadPoolExecutor(max_workers=JOBS) as ex:
            futs = [ex.submit(do_cond, c, scratch, workdir) for c in conds_sorted]
            for f in cf.as_completed(futs):
                results.append(f.result())
        order = {c.name: i for i, c in enumerate(conds)}
        results.sort(key=lambda cr: order[cr[0].name])
        # functions encoded: trace one witness per harness module concretely
        funcs = measure_functions(results, scratch)
        rc = report(mod, pid, tier, seed, results, funcs, scratch, time.time() - t0)
        return rc
    finally:
        if not a.keep:
            shutil.rmtree(scratch, ignore_errors=True)
            shutil.rmtree(workdir, ignore_errors=True)
        else:
            print('kept', scratch, workdir)


def measure_functions(results, scratch):
    funcs = set()
    seen = set()
    for cond, res in results:
        if cond.kind != 'crosshair':
            sc = res['script'].get('res') or {}
            funcs.update(sc.get('functions_encoded', []))
            continue
        key = (cond.module, cond.func, json.dumps(cond.params.get('_trace_key', cond.params),
                                                  sort_keys=True))
        if key in seen:
            continue
        tw = res.get('twin')
        if not tw or tw['verdict'] != 'counterexample' or tw['cex'] is None:
            continue
        # one trace per (module, func) x first 3 param sets is enough to name the functions
        if sum(1 for k in seen if k[:2] == key[:2]) >= 3:
            continue
        seen.add(key)
        r = replay(cond, scratch, tw['cex'], trace=True)
        funcs.update(r.get('functions', []))
    return sorted(funcs)


def do_replay_file(mod, path, scratch, pid):
    with open(path) as f:
        rp = json.load(f)
    cond = Cond(rp['condition'], rp['module'], rp['params'], rp.get('func', 'check'))
    r = replay(cond, scratch, rp['args'])
    print(json.dumps(r, indent=1))
    if r.get('outcome') in ('false', 'exception'):
        print('VIOLATION property=%s replay=%s' % (pid, path))
        return 1
    return 0


def report(mod, pid, tier, seed, results, funcs, scratch, wall):
    evid_dir = os.path.join(OUT, 'evidence')
    os.makedirs(evid_dir, exist_ok=True)
    rep_dir = os.path.join(OUT, 'replays', pid)
    violations = []
    harness_errors = []
    inconclusive = []
    known_seen = {}
    conds_out = []
    evaluations = 0
    distinct = set()
    samples = []
    queries = []
    assumptions = list(getattr(mod, 'ASSUMPTIONS', []))
    n_confirmed = 0
    for cond, res in results:
        for asm in cond.assumptions:
            if asm not in assumptions:
                assumptions.append(asm)
        if cond.kind == 'script':
            sc = res['script']
            r = sc.get('res')
            entry = dict(name=cond.name, kind='E2-z3', bound=cond.bound, wall_s=round(sc['wall'], 1))
            if r is None and sc['rc'] == -9:
                entry['verdict'] = 'inconclusive'
                inconclusive.append('%s: solver script exceeded its wall-clock budget' % cond.name)
            elif r is None:
                entry['verdict'] = 'tool-error'
                harness_errors.append('%s: script produced no result (rc=%s) %s' % (
                    cond.name, sc['rc'], (sc['err'] or sc['out'])[-600:]))
            else:
                entry['verdict'] = r.get('verdict', 'inconclusive')
                entry['queries'] = r.get('queries', [])
                queries.extend(dict(q, condition=cond.name) for q in r.get('queries', []))
                evaluations += len(r.get('queries', []))
                for q in r.get('queries', []):
                    distinct.add((cond.name, q.get('name')))
                samples.extend(r.get('samples', [])[:3])
                for e in r.get('errors', []):
                    harness_errors.append('%s: %s' % (cond.name, e))
                for q in r.get('inconclusive', []):
                    inconclusive.append('%s: %s' % (cond.name, q))
                for k in r.get('known', []):
                    known_seen[k] = known_seen.get(k, 0) + 1
                for v in r.get('violations', []):
                    os.makedirs(rep_dir, exist_ok=True)
                    h = hashlib.sha1(json.dumps(v, sort_keys=True).encode()).hexdigest()[:12]
                    p = os.path.join(rep_dir, '%s_%s.json' % (cond.name, h))
                    with open(p, 'w') as f:
                        json.dump(dict(condition=cond.name, module=cond.module,
                                       params=cond.params, kind='script', violation=v), f, indent=1)
                    violations.append((cond.name, p, v.get('what', '')))
                if entry['verdict'] == 'confirmed':
                    n_confirmed += 1
            conds_out.append(entry)
            continue
        main = res['main']
        cases = [r for r in main['recs'] if r.get('k') == 'case']
        for r in main['recs']:
            if r.get('k') == 'known':
                known_seen[r['key']] = known_seen.get(r['key'], 0) + 1
        evaluations += len(cases)
        sigs = set(json.dumps(r['sig']) for r in cases)
        for s in sigs:
            distinct.add((cond.name, s))
        if cases and len(samples) < 40:
            samples.append({'condition': cond.name, 'params': cond.params,
                            'path_selectors': cases[len(cases) // 2]['sig']})
        entry = dict(name=cond.name, kind='E1-crosshair', bound=cond.bound,
                     symbolic_through=cond.symbolic, case_split=cond.case_split,
                     realised=cond.realised, verdict=main['verdict'], paths=len(cases),
                     distinct_paths=len(sigs), wall_s=round(main['wall'], 1))
        if main['verdict'] == 'confirmed':
            n_confirmed += 1
        elif main['verdict'] == 'inconclusive':
            inconclusive.append('%s: %s' % (cond.name, main['detail']))
        elif main['verdict'] == 'tool-error':
            harness_errors.append('%s: crosshair failed: %s' % (cond.name, main['detail']))
        elif main['verdict'] == 'counterexample':
            rp = res.get('replay', {})
            entry['counterexample'] = main['detail'][:500]
            if rp.get('outcome') in ('false', 'exception'):
                os.makedirs(rep_dir, exist_ok=True)
                h = hashlib.sha1(json.dumps([cond.params, main['cex']],
                                            sort_keys=True).encode()).hexdigest()[:12]
                p = os.path.join(rep_dir, '%s_%s.json' % (cond.name, h))
                with open(p, 'w') as f:
                    json.dump(dict(condition=cond.name, module=cond.module, func=cond.func,
                                   params=cond.params, args=main['cex'], outcome=rp,
                                   message=main['detail']), f, indent=1)
                violations.append((cond.name, p, main['detail'][:300]))
            else:
                harness_errors.append('%s: counterexample did not reproduce in plain replay '
                                      '(encoding/stub error): %s -> %s' % (
                                          cond.name, main['detail'][:300], json.dumps(rp)[:300]))
        if cond.twin:
            tw = res['twin']
            entry['reach_twin'] = tw['verdict']
            if tw['verdict'] == 'counterexample':
                entry['reach_twin'] = 'witness found'
            elif tw['verdict'] == 'confirmed':
                harness_errors.append('%s: reachability twin confirmed -> harness is vacuous'
                                      % cond.name)
            else:
                # twin inconclusive: fall back to the side-channel witness of the main run
                if cases:
                    entry['reach_twin'] = 'twin inconclusive; %d oracle evaluations logged' % len(cases)
                else:
                    harness_errors.append('%s: no reachability witness (twin: %s %s)' % (
                        cond.name, tw['verdict'], tw['detail'][:200]))
        conds_out.append(entry)

    # known findings listed in the file
    kf_path = os.path.join(ROOT, 'known_findings.json')
    kf = {}
    if os.path.exists(kf_path):
        with open(kf_path) as f:
            for e in json.load(f).get('findings', []):
                kf[e['key']] = e
    for k in sorted(known_seen):
        e = kf.get(k, {})
        print('KNOWN-FINDING: property=%s %s [%s] (%d paths)' % (pid, e.get('what', k), k,
                                                                 known_seen[k]))
    for line in inconclusive:
        print('INCONCLUSIVE %s' % line)
    for line in harness_errors:
        print('HARNESS-ERROR %s' % line)
    for name, p, what in violations:
        print('violation in %s: %s' % (name, what))
        print('VIOLATION property=%s replay=%s' % (pid, p))
    total = len(conds_out)
    exhaustive = (n_confirmed == total and not violations and not harness_errors)
    level = getattr(mod, 'LEVEL', 'other')
    coverage = dict(
        explanation=getattr(mod, 'EXPLANATION', '') or (
            'bounded symbolic execution of the real pyxtuml functions (CrossHair 0.0.110 + z3) '
            'and/or direct z3 queries generated from the current source; verdict per condition'),
        evaluations=max(evaluations, 0),
        distinct_nontrivial=len(distinct),
        rule=getattr(mod, 'RULE', 'one evaluation = one feasible execution path that reached the '
                     'oracle point of a harness (or one solver query); distinct = distinct '
                     '(condition, tuple of case-split selectors) pairs; symbolic-through values '
                     'are not enumerated and do not multiply the count'),
        samples=samples[:12] or [{'note': 'no path reached an oracle'}],
        exhaustive=exhaustive,
        conditions=conds_out,
        conditions_total=total,
        conditions_confirmed=n_confirmed,
        functions_encoded=funcs,
        queries=queries[:400],
        inconclusive=inconclusive,
        known_findings_seen=sorted(known_seen),
        repo_module_paths=[os.path.join(scratch, 'xtuml'), os.path.join(scratch, 'bridgepoint')],
        source_tree=REPO,
        jobs=JOBS,
    )
    extra = getattr(mod, 'coverage_extra', None)
    if extra:
        coverage.update(extra(results))
    ev = dict(property_id=pid, tier=tier, seed=seed, level=level, coverage=coverage,
              assumptions=assumptions, wall_s=round(wall, 1), violations=len(violations))
    with open(os.path.join(evid_dir, pid + '.json'), 'w') as f:
        json.dump(ev, f, indent=1)
    print('%s tier=%s: %d conditions, %d confirmed, %d inconclusive, %d violations, '
          '%d harness errors, %d paths, %.0f s' % (pid, tier, total, n_confirmed,
                                                   len(inconclusive), len(violations),
                                                   len(harness_errors), evaluations, wall))
    if violations:
        return 1
    if harness_errors:
        return 3
    return 0


if __name__ == '__main__':
    ensure_venv()
    if os.path.abspath(sys.executable) != os.path.abspath(PY) and os.environ.get('VERIF_REEXEC') != '1':
        os.environ['VERIF_REEXEC'] = '1'
        os.execv(PY, [PY, '-m', 'engine.main'] + sys.argv[1:])
    sys.exit(main())
