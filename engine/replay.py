"""Plain (untraced) re-execution of a harness function with concrete arguments.
usage: replay.py <module.py> <func> <json args> [--trace]
prints 'REPLAY {json}': outcome in {true, false, none, exception}; with --trace also the set of
xtuml.* / bridgepoint.* functions entered (the 'functions encoded' of the evidence)."""
import importlib.util
import json
import os
import sys
import traceback


def main():
    path, func, args = sys.argv[1], sys.argv[2], json.loads(sys.argv[3])
    trace = '--trace' in sys.argv[4:]
    spec = importlib.util.spec_from_file_location('_harness_replay', path)
    mod = importlib.util.module_from_spec(spec)
    sys.modules['_harness_replay'] = mod
    spec.loader.exec_module(mod)
    fn = getattr(mod, func)
    seen = set()
    scratch = os.environ.get('VERIF_SCRATCH', '')

    def tracer(frame, event, arg):
        if event == 'call':
            co = frame.f_code
            fnm = co.co_filename
            if fnm.startswith(scratch) and ('/xtuml/' in fnm or '/bridgepoint/' in fnm):
                rel = fnm[len(scratch):].lstrip('/')
                if '__' not in os.path.basename(rel).replace('__init__', ''):
                    qn = getattr(co, 'co_qualname', co.co_name)
                    seen.add('%s:%s' % (rel, qn))
        return None

    out = {}
    try:
        if trace:
            sys.settrace(tracer)
        try:
            r = fn(**args)
        finally:
            sys.settrace(None)
        out['outcome'] = 'true' if r is True else 'false' if r is False else 'none' if r is None else 'other'
        if out['outcome'] == 'other':
            out['value'] = repr(r)[:300]
    except BaseException as e:  # noqa
        out['outcome'] = 'exception'
        out['exception'] = '%s: %s' % (type(e).__name__, str(e)[:300])
        out['traceback'] = traceback.format_exc()[-1500:]
    diff = getattr(mod, 'LAST_DIFF', None)
    if diff:
        out['diff'] = repr(diff)[:1500]
    if trace:
        out['functions'] = sorted(seen)
    print('REPLAY ' + json.dumps(out))


main()
