"""Helpers imported by harness modules (both under CrossHair and in plain replay runs)."""
import contextlib
import json
import logging
import os

# Logging is an environment stub in every harness process: LogRecord creation calls time.time(),
# which CrossHair replaces by a symbolic float (an unbounded choice point on every logger call).
logging.disable(logging.CRITICAL)

PARAMS = json.loads(os.environ.get('VERIF_PARAMS', '{}'))
TWIN = os.environ.get('VERIF_TWIN') == '1'
_SIDE = os.environ.get('VERIF_SIDE')
_ROOT = os.environ.get('VERIF_ROOT', os.path.dirname(os.path.dirname(os.path.abspath(__file__))))

try:
    from crosshair.core import realize as _realize
    from crosshair.core import deep_realize as _deep_realize
    from crosshair.tracers import NoTracing as _NoTracing, is_tracing as _is_tracing
    from crosshair.util import CrossHairValue as _CHV
except Exception:  # crosshair not importable: plain runs only
    _realize = _deep_realize = None
    _NoTracing = None
    _CHV = ()

    def _is_tracing():
        return False


def POST(r):
    """Postcondition used by every harness: `post: POST(_)`.

    Harnesses return None on paths filtered out by their own guards, True when the oracle was
    evaluated and agreed, False when it disagreed.  The reachability twin (VERIF_TWIN=1) flips the
    condition so that CrossHair must produce a path on which the oracle was evaluated and agreed."""
    if TWIN:
        return r is not True
    return r is not False


def tracing():
    return _is_tracing()


def notrace():
    if _is_tracing():
        return _NoTracing()
    return contextlib.nullcontext()


def cs(x, lo=None, hi=None):
    """case-split: turn a small-range selector into a concrete value by forking.

    With bounds (lo <= x <= hi, which the harness precondition must imply) the value is found by
    bisection on `x <= mid`, i.e. by ordinary solver-decided branches: the decision tree is
    balanced (depth log2 of the range) instead of CrossHair's linear chain of model values.
    Without bounds the value is realised by the solver (forks over its feasible values)."""
    if isinstance(x, bool) or (lo is None and type(x) is bool):
        return True if x else False
    if lo is None:
        if _is_tracing():
            return _realize(x)
        return x
    while lo < hi:
        mid = (lo + hi) // 2
        if x <= mid:
            hi = mid
        else:
            lo = mid + 1
    return lo


def csb(x):
    return True if x else False


def cs_deep(x):
    if _is_tracing():
        return _deep_realize(x)
    return x


def _show(v):
    if isinstance(v, _CHV):
        return '<sym %s>' % type(v).__name__.replace('Symbolic', '').lower()
    if isinstance(v, (list, tuple)):
        return [_show(x) for x in v]
    if isinstance(v, (int, str, bool, float)) or v is None:
        return v
    return repr(v)


def _emit(rec):
    if not _SIDE:
        return
    with open(_SIDE, 'a') as f:
        f.write(json.dumps(rec) + '\n')


def case(*sig):
    """Record that a path reached the oracle point; sig = the case-split selectors of the path
    (still-symbolic values are logged as '<sym ...>' without being realised)."""
    with notrace():
        _emit({'k': 'case', 'sig': [_show(s) for s in sig]})


_known = None


def _load_known():
    global _known
    if _known is None:
        _known = {}
        p = os.path.join(_ROOT, 'known_findings.json')
        if os.path.exists(p):
            with open(p) as f:
                for e in json.load(f).get('findings', []):
                    if e.get('status') == 'known':
                        _known[e['key']] = e
    return _known


def known(key):
    """True when a failure with this specific key is a listed known finding (status 'known');
    the occurrence is logged so the runner prints a KNOWN-FINDING line.  'fixed' entries
    suppress nothing."""
    with notrace():
        k = _load_known()
        if os.environ.get('VERIF_IGNORE_KNOWN') == '1':
            return False
        if key in k:
            _emit({'k': 'known', 'key': key})
            return True
        return False


def note(kind, **kw):
    with notrace():
        d = {'k': kind}
        d.update({a: _show(b) for a, b in kw.items()})
        _emit(d)


def stub_str():
    """Formatting stub: exception messages / logger calls of xtuml.meta stringify instances via
    Class.__str__ -> serialize_value -> uuid.UUID(int=v), which turns a symbolic identifier into
    an unbounded choice point.  Used by harnesses whose subject is not serialisation."""
    import xtuml
    xtuml.Class.__str__ = lambda self: '<%s instance>' % type(self).__name__
