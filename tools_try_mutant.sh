#!/bin/sh
# usage: tools_try_mutant.sh <Cxx> <patch.diff> [--only regex]   (applies the patch to /repo, runs the check, reverts)
P=$1; PATCH=$2; shift 2
cd /repo || exit 9
if [ -n "$(git status --porcelain --untracked-files=no)" ]; then echo "repo dirty"; exit 9; fi
git apply "$PATCH" || { echo "patch does not apply"; exit 9; }
cd /verif && ./check $P "$@" > /tmp/mutrun_$P.log 2>&1; RC=$?
git -C /repo checkout -- .
echo "rc=$RC"; grep -c "^VIOLATION" /tmp/mutrun_$P.log; grep "^violation in\|HARNESS-ERROR\|tier=" /tmp/mutrun_$P.log | head -6
