#!/usr/bin/env python3
"""Regenerates MANIFEST.json from the table below (keeps it schema-valid at all times)."""
import json, os
ROOT = os.path.dirname(os.path.abspath(__file__))

CLAIMED = {
 'C05': dict(
    category='exploration',
    text='Bounded exploration driven by the solver: CrossHair enumerates the (program, action home) indices of a fixed corpus (27 hand-written name-resolved '
         'bodies covering the supported statement set, each in every compatible home: function, instance operation, class operation, bridge, derived attribute; plus '
         'the 26 real bodies of the fixture model) and executes the real prebuild_action and gen_text_action on each; parse(text) and parse(gen(prebuild(text))) are '
         'compared STRICTLY (node class, every scalar field, child count and order; only keyword letter case and the bridge/transform/send spellings of one implicit '
         'invocation are normalised), and translating the generated text again in a fresh model must give the same text. No program data is symbolic-through '
         '(names and literals must pass the OAL lexer), so this is exhaustive over the corpus, not over all programs.',
    design_ref='DESIGN.md section 5, C05',
    note='corpus-bounded; fixture fixtures/interp_model.xtuml; text parsed by PLY outside the tracer. Known finding: a constant referenced by its bare name is '
         'regenerated with its constant-specification prefix.',
    technique='solver-enumerated bounded execution of the real code (CrossHair + z3) with a strict syntax-tree oracle'),
 'C06': dict(
    category='exploration',
    text='Same corpus and runs as C05; after prebuild_action the instances it created are checked by an independent oracle: no new multiplicity/uniqueness violation '
         'in the model, exactly one R603 subtype per statement and one R801 subtype per value, per block the R661 chain and the persisted Previous_Statement_ID equal '
         'source order with none at the ends, R816 / Next_Value_ID parameter chains and R604 / Next_Link_ID navigation chains in source order, statements positioned at '
         'the first column of their text, every variable in a block, and typing of literals, comparison/boolean/unary operators, attribute reads and instance (set) references.',
    design_ref='DESIGN.md section 5, C06',
    note='corpus-bounded; not checked: positions of values, declaring block of a variable, types of transients and parameters.',
    technique='solver-enumerated bounded execution of the real code (CrossHair + z3) with an independent well-formedness oracle'),
 'C14': dict(
    category='other',
    text='Symbolic execution of mk_component / mk_class / mk_*_association on a real BridgePoint model with ONE edit applied per path and a metamorphic oracle '
         'written from the statement: the component built from the edited model must equal the baseline signature (classes with ordered typed attributes, '
         'identifiers, associations with key lists, multiplicity+conditionality per end and phrases) transformed by the same edit. Edits: Mult and Cond of every '
         'R_FORM / R_PART / R_AONE / R_AOTH as SYMBOLIC integers, phrases of the reflexive linked association as SYMBOLIC strings, rename of every attribute, retype '
         'of every base attribute to 7 data types (core / user-defined / enumeration) with referential attributes following, swap of attributes in the R103 chain, '
         'identifier membership; whole model vs named component vs build_component, with derived attributes, three row orders of the model text; the unedited '
         'result is also compared with a reviewed expected signature of the fixture, and the SQL schema persisted for the component must load back to the same definitions.',
    design_ref='DESIGN.md section 5, C14',
    note='one fixture model (fixtures/Simple_Model.xtuml), edit scripts of length 1; model text parsed outside the tracer; class synthesis from abstract diagrams not covered.',
    technique='bounded symbolic execution of the real code (CrossHair + z3); Mult/Cond/phrases symbolic-through, metamorphic oracle'),
 'C20': dict(
    category='other',
    text='Symbolic execution of gen_xsd_schema.build_schema on a real BridgePoint model with one edit per path and a metamorphic oracle on the returned element '
         'tree: rename of every attribute to a SYMBOLIC name, retype of every base attribute to 9 data types (referential attributes follow, user types unwound to '
         'their base, unsupported types omitted), append / swap / rename of enumerators along R56, new user-defined types on 4 kinds of base, moving each class out of '
         'the component, making an attribute derived; the unedited declarations are compared with a reviewed expectation and the realised tree must survive '
         'ET.tostring / ET.fromstring / prettify (well-formed XML).',
    design_ref='DESIGN.md section 5, C20',
    note='one fixture model, edit scripts of length 1; attribute order inside an element is not constrained; model text parsed outside the tracer.',
    technique='bounded symbolic execution of the real code (CrossHair + z3); names symbolic-through, metamorphic oracle'),
 'C15': dict(
    category='other',
    text='Symbolic execution of the real call machinery (mk_component -> mk_function / mk_operation / mk_external_entity / mk_derived_attribute, run_function / '
         'run_operation / run_derived_attribute, invocation evaluators) on a real BridgePoint model whose bodies are overwritten per call graph: 13 call graphs '
         '(depth 3 with equally named locals, direct and mutual recursion, parameters bound by name in permuted order, calls inside loop conditions, if conditions '
         'and where clauses, instance operation with self, class operation, bridge of a user external entity, derived attribute re-read after its inputs changed, '
         'bare return / no return, an operation invoking itself on self). The entry function is invoked from Python with SYMBOLIC unbounded integer arguments and '
         'attribute values (recursion depth n in 0..4); result and final attribute values must equal the reference evaluator with call frames. Enumerator '
         'positions and constant values are checked under every order of the S_ENUM rows and two reorderings of the whole model text.',
    design_ref='DESIGN.md section 5, C15',
    note='fixed list of call graphs; nested oal.parse calls and model loading run outside the tracer; CrossHair getattr patch replaced so that property getters '
         '(derived attributes) run traced (engine/chpatch.py).',
    technique='bounded symbolic execution of the real code (CrossHair + z3); arguments symbolic-through, differential against a reference evaluator'),
 'C04': dict(
    category='other',
    text='Symbolic execution of the real interpreter (FunctionWalker.accept over the AST produced by the real parser) against an independent reference '
         'evaluator over plain rows and adjacency lists: one condition per program skeleton (33 error-free skeletons covering every construct of the statement) '
         'with the OAL parameters and all integer/boolean attribute values of the initial population SYMBOLIC and unbounded, every initial link state case-split. '
         'CrossHair explores every path of interpreter + reference (loop trip counts, where-clause outcomes, comparison results are solver-decided) and reports '
         '"Confirmed over all paths" when the return value and the final population (instances per class, attribute values, links) agree on all of them.',
    design_ref='DESIGN.md section 5, C04',
    note='programs come from a fixed, reviewed skeleton list (not all programs up to a size bound); integer "/" and "%" on negatives and the instance-set operators '
         'are left out; program text is realised and parsed outside the tracer; 2 A + 2 B initial instances; pn in 0..3 bounds the loops.',
    technique='bounded symbolic execution of the real code (CrossHair + z3); program data symbolic-through, differential against a reference evaluator'),
 'C08': dict(
    category='other',
    text='Three layers. Parse: 43 bodies (core skeletons + carrier statements for the remaining keywords incl. events/bridge/transform/send) in UPPER, Capitalised '
         'and alternating case parse to the same tree as in lower case (strict comparison, keyword-carrying fields lower-cased). Execute: every core skeleton parsed '
         'from its UPPER-case text (keyword-heavy ones also alternating case) is executed under CrossHair with symbolic data and must equal the reference evaluator, '
         'i.e. the lower-case semantics. Symbolic spellings: each keyword-carrying AST field (select cardinality, and/or/not/empty/..., boolean literals) of 14 '
         'skeletons is replaced by a SYMBOLIC string constrained only to the keyword letters in either case, so all 2^len spellings are covered by one condition '
         '(fields longer than 5 letters only in the thorough tier). Prebuild-level case-insensitivity is checked in the C05/C06 harness.',
    design_ref='DESIGN.md section 5, C08',
    note='text realised and parsed by PLY outside the tracer; spelling conditions use fixed data; reference evaluator as in C04.',
    technique='bounded symbolic execution of the real code (CrossHair + z3); keyword spellings symbolic-through'),
 'C01': dict(
    category='other',
    text='Two engines. (E2) z3 lexical lemmas generated from the current source (the STRING escape/unescape literals of serialize_value / '
         'deserialize_value, the format idioms of the other types, the t_* token regexes in PLY order, p_value / p_negative_value / p_identifier): for EVERY '
         'string over all code points up to length 3 (4 thorough) the escaped, quoted text un-escapes to the same string, is exactly one STRING token, is not '
         'extended or cut short by the scanner and is not stolen by an earlier rule; the serialised forms of integers, reals, booleans and ids are included in '
         'the corresponding token language with exact extent (regular-language inclusion, strings up to 48 chars); every identifier [A-Za-z_]\\w* not starting '
         'with R<digit> is one ID token. unsat = holds; sat models are replayed through the real serialize/load. (E1) structural round trip under CrossHair: '
         'schema families (all five core types with two identifiers; 1:M, 1:1 with phrases, reflexive, association class, composite (string,integer) key, '
         'subtype/supertype; 23 SQL keywords / cardinality words as class, attribute and index names) x 6 routes (serialize_database, serialize() dispatch on the '
         'model and piecewise on classes/associations/instances, three separate texts in scrambled order, persist_database, persist_schema+instances+identifiers) '
         'with one value dimension swept over its pool per condition and every link state: signature (classes, types, associations, identifiers, ordered instance '
         'tuples, links by navigation) is preserved and re-serialising is a fixed point after one round; instances-only input keeps values and guessed types.',
    design_ref='DESIGN.md section 5, C01',
    note='E1 values are case-split from pools and realised (they pass the lexer); \\d / \\w are modelled as ASCII in E2; the meaning of %d, %f and uuid.UUID '
         'formatting is trusted; phrases with quotes, inf/nan, ids >= 2^128 and R<digits> identifiers are outside the claim. Known finding: CR inside strings '
         'becomes LF through the file routes (listed in known_findings.json).',
    technique='z3 string/regex lemmas generated from the source + bounded symbolic execution of the real code (CrossHair + z3)'),
 'C12': dict(
    category='other',
    text='PARTIAL (build phase + atomicity of input(); scanner totality on arbitrary text is not claimed). Bounded-exhaustive symbolic execution of the real '
         'populate_* / deserialize_value code on statement objects: every value token of a 21-token pool covering all lexical classes in columns of 7 type '
         'names (positional and named inserts), associations naming defined/undefined classes and present/missing key attributes on either end with and without '
         'rows, unique indices on missing classes/attributes: only ParsingException or MetaException may escape build_metamodel. input(): every sequence of '
         'three calls from a pool of accepted and rejected texts (lexical error, syntax error after valid statements, illegal cardinality raised inside a '
         'production, truncated input) on one loader: a rejected call leaves loader.statements identical and later builds equal those of a fresh loader fed '
         'only the accepted texts; plus the same with the parser replaced by a nondeterministic stub. "Confirmed over all paths" per condition.',
    design_ref='DESIGN.md section 5, C12 and section 6',
    note='texts are realised and parsed by the real PLY parser outside the tracer; arbitrary strings / random token sequences / time bounds are outside the claim.',
    technique='bounded symbolic execution of the real code (CrossHair + z3) over statement objects and text pools'),
 'C18': dict(
    category='other',
    text='Bounded-exhaustive symbolic execution: after a first build, EVERY sequence of 2 (quick; plus seed-rotated shards of the 3-step space; thorough: all 3-step '
         'sequences) steps out of {build again, input more text, 10 kinds of mutation applied to either of the first two built metamodels (attribute write, '
         'id write, new, delete, relate, unrelate, append/delete attribute, define identifier, define class)} followed by a final build; after every step all '
         'other metamodels serialise exactly as before, and every build equals the build of a fresh loader given the same accepted inputs.',
    design_ref='DESIGN.md section 5, C18',
    note='one schema (two classes, 1:M association, identifier); fixed mutation values; texts realised and parsed outside the tracer; build_metamodel and mutations traced.',
    technique='bounded symbolic execution of the real code (CrossHair + z3), exhaustive over step sequences'),
 'C03': dict(
    category='other',
    text='Bounded-exhaustive symbolic execution of the real loader/metamodel code. Join: for 8 key schemas (single keys of every core type, composite '
         '(id,string) and (integer,id) keys, one referential attribute formalising two associations) EVERY assignment of pool key values (unset, null id, '
         'empty string, matching, duplicate, dangling) to 2 referred and 2 (3) referring rows is loaded and build_metamodel runs under CrossHair; navigation in '
         'both directions must equal an independent nested-loop join with the documented null rule, referential reads must agree and be stripped from the '
         'instance dict. API route: the same rows created with MetaModel.new (referred first) or cloned from the loaded model give the same links. '
         'Order/partition: statement permutations of three models (explicit schema with reflexive association and index; association class; inferred schema) '
         'and every partition into up to three parts given through input(), files, a directory tree and a zip archive yield the same signature modulo instance order. '
         '"Confirmed over all paths" per condition; the 8! x 5 permutation space is sharded (quick: 3 seed-rotated shards of 1024, thorough: all).',
    design_ref='DESIGN.md section 5, C03',
    note='key values are hashed by the index join and therefore case-split from small pools; model text is realised and parsed by PLY outside the tracer '
         '(the scanner is not part of this claim); populations for the API route stay within the association multiplicity.',
    technique='bounded symbolic execution of the real code (CrossHair + z3), exhaustive over key assignments / permutation shards'),
 'C10': dict(
    category='other',
    text='Bounded-exhaustive symbolic execution of the real attribute/class-name handling: every history of 2 (3) operations out of '
         '{write plain, write identifying, delete plain, delete identifying, relate, unrelate, write referential (rejected)} with 4 independent '
         'case spellings per operation, followed by reads of every attribute under all spellings, where_eq under all spellings and referential reads; '
         'constructor keywords for plain/identifying/referential attributes under all spellings x all class-name spellings; class-name spelling in '
         'new/find_metaclass/select_*/find_class/define_class/attribute_type; serialize_instance after writes under mixed spellings. Written values '
         'are symbolic and unbounded. Oracle: one cell per declared attribute. "Confirmed over all paths" per condition.',
    design_ref='DESIGN.md section 5, C10',
    note='two-letter names (4 case patterns); deleting an attribute that holds no value must raise and leave everything else alone; Class.__str__ stubbed.',
    technique='bounded symbolic execution of the real code (CrossHair + z3); written values symbolic-through'),
 'C11': dict(
    category='other',
    text='Bounded-exhaustive symbolic execution of the real consistency checker against a direct count: two associations with all 16 multiplicity/'
         'conditionality pairs (varied one association at a time), EVERY unconstrained 2x2 (3x3 thorough) link matrix, reflexive and not, -> '
         'check_association_integrity total and per association number, is_consistent; identifiers on a unique_id attribute (type spelled both ways), '
         'on a composite (integer, string) key and on both, with null/duplicate values from small pools -> check_uniqueness_constraint total and per class; '
         'subtype integrity; and the command-line tool on generated model text (16 cardinality pairs x duplicate ids x null/matching/dangling references x 9 '
         '-r/-k option sets) compared with the expected count and exit status.',
    design_ref='DESIGN.md section 5, C11',
    note='identifying values are hashed, hence case-split from small pools; null = None or id 0; empty strings outside the claim; message builders '
         '(pretty_*) stubbed and logging disabled; the CLI parses realised text outside the tracer.',
    technique='bounded symbolic execution of the real code (CrossHair + z3), exhaustive over link matrices and value tables'),
 'C09': dict(
    category='other',
    text='Bounded-exhaustive symbolic execution of the real query and navigation code. Queries: a population of 3 (4) instances whose integer and '
         'boolean attribute values, filter operands and thresholds are symbolic and UNBOUNDED, so every ordering and tie pattern of the sort keys '
         'and every filter outcome is a solver-decided branch; every sequence of up to 2 (3) operators out of where_eq on one/two/referential attributes, '
         'dict filter, lambdas, order_by / reverse_order_by on one/two attributes, through select_many/select_one/select_any and QuerySet.first/last, '
         'against a list-comprehension + stable insertion sort oracle. Navigation: 20 chain templates (length 1-4, from None/instance/QuerySet/list/'
         'generator, through an association class both as two-hop and explicitly, reflexive with phrases, subtype navigation, trailing lambda/where_eq/'
         'order_by with symbolic operands) over EVERY valid link state of the associations crossed, against relational composition with '
         'first-occurrence de-duplication. Verdict "Confirmed over all paths" per condition.',
    design_ref='DESIGN.md section 5, C09',
    note='Pools: 3/4 queried instances, navigation A:2 B:3 D:2 L:2 X:1 Y:1; link states enumerated through a solver-chosen table index; at most one deleted '
         'instance; Class.__str__ stubbed; CrossHair+z3+CPython trusted.',
    technique='bounded symbolic execution of the real code (CrossHair + z3); attribute values symbolic-through'),
 'C16': dict(
    category='other',
    text='Bounded-exhaustive: the solver picks an index into the table of ALL successor maps over n labelled instances (n <= 6 quick, 7 thorough: every '
         'partition into chains, every order inside a chain, every creation order), both phrases; all rings; the empty set; and, for termination, all '
         'partial injective successor maps (mixed chains and several rings) x all non-empty subsets for n <= 4 (5). The real sort_reflexive runs under '
         'CrossHair; "Confirmed over all paths" per shard. Oracle: every member once, each chain contiguous from its head in direction; ring once around '
         'from the first member.',
    design_ref='DESIGN.md section 5, C16',
    note='Pure case-split (instances are hashed); termination observed through a fuel bound on xtuml.meta.navigate_one; order between chains is not '
         'constrained; larger sets are outside the claim.',
    technique='bounded symbolic execution of the real code (CrossHair + z3), exhaustive over arrangements'),
 'C19': dict(
    category='other',
    text='Symbolic execution of MetaClass.new / default_value / the id generators: every count of positional arguments x every keyword subset on a class '
         'with one attribute per core type, two ids and a referential attribute, with all supplied bool/int/id values symbolic and unbounded; '
         'three-creation histories for id freshness; IntegerGenerator as an inductive step from an ARBITRARY symbolic state c (peek returns c and changes '
         'nothing, next returns c and leaves c+1, any interleaving of up to 4 calls) plus the base case 1,2,3,...; UUIDGenerator with uuid4 replaced by its '
         'contract (symbolic 128-bit value with RFC 4122 bits); user-supplied generators with symbolic outputs; unknown type names rejected with MetaException. '
         '"Confirmed over all paths" per condition.',
    design_ref='DESIGN.md section 5, C19',
    note='real/string argument values are fixed constants (only stored); uuid4 freshness assumed; type-name pool of 16 names.',
    technique='bounded symbolic execution of the real code (CrossHair + z3); generator state symbolic (inductive step)'),
 'C02': dict(
    category='other',
    text='Inductive step, bounded-exhaustive by symbolic execution: for each of 10 association shapes (1:M, 1:1, conditional/unconditional, '
         'with phrases, reflexive 1:1 and 1:M, association class M:M and 1:1 with two formalisations, subtype/supertype sharing the identifier, '
         'two associations between the same classes) EVERY well-formed link state over small pools (all link matrices within the single-valued '
         'ends x liveness) and EVERY single call of new/relate/unrelate/delete (both argument orders, wrong phrase, unknown association, None '
         'operand, unconnected kinds, repeated delete, relate-then-unrelate) is executed on the real xtuml.meta code under CrossHair with the '
         'identifying values symbolic; verdict "Confirmed over all paths" per (shape, operation). Because rejected calls are shown to leave the '
         'state unchanged, every reachable state is such a pre-state, so one step covers histories of any length over the pools.',
    design_ref='DESIGN.md section 5, C02',
    note='Pools of 2 instances per class (3 in thorough for single-association shapes), one deletable instance per class; pre-states installed '
         'with Link.connect(check=False) and verified by navigation; use of a deleted instance as relate/unrelate operand is outside the claim; '
         'Class.__str__ stubbed (message formatting); CrossHair+z3+CPython trusted; relation model in harness/c02_step.py is the oracle.',
    technique='bounded symbolic execution of the real code (CrossHair + z3), inductive step over all pre-states'),
 'C17': dict(
    category='other',
    text='Inductive step, bounded-exhaustive by symbolic execution: for EVERY duplicate-free ordered-set state over a small universe '
         'and EVERY single operation (add/discard/remove/pop first/last/clear/|= &= -= ^=/| & - ^/==/!=/construction/iteration with removal) '
         'CrossHair executes the real OrderedSet/QuerySet code with the state and operands as solver-chosen selectors and reports '
         '"Confirmed over all paths" (z3 shows no unexplored feasible selector value remains). Since a state is determined by its '
         'element sequence, one step from all states covers histories of any length over that universe.',
    design_ref='DESIGN.md section 5, C17',
    note='Set elements are hashed, so all selectors are case-split (small universe 0..3/0..4, |state| <= 3/4, |operand| <= 2); '
         'CrossHair 0.0.110 + z3 and CPython are trusted; the list model in harness/c17_step.py is the oracle.',
    technique='bounded symbolic execution of the real code (CrossHair + z3), inductive step over all pre-states'),
}

NOT_YET = {}
for i in range(1, 21):
    pid = 'C%02d' % i
    if pid not in CLAIMED:
        NOT_YET[pid] = 'check not built yet in this round (see DESIGN.md section 5 for the planned harness)'
NOT_YET['C13'] = ('subject lies entirely inside PLY\'s regex scanner / table driver on a concrete text buffer; symbolic buffers of '
                  'length 2 do not exhaust under CrossHair and the scanner cannot be mirrored faithfully in SMT (DESIGN.md section 6)')


def main():
    checks = []
    for pid in sorted(CLAIMED):
        c = CLAIMED[pid]
        checks.append(dict(
            property_id=pid,
            quick_cmd='./check %s --tier quick' % pid,
            thorough_cmd='./check %s --tier thorough' % pid,
            evidence_file='evidence/%s.json' % pid,
            replay_cmd_template='./check %s --replay {path}' % pid,
            engine='pyxtuml-solver-harness',
            level_claimed=dict(category=c['category'], text=c['text'], design_ref=c['design_ref']),
            level_note=c['note'],
            technique=c['technique']))
    m = dict(
        version=1,
        setup_cmd='/bin/sh ./setup.sh',
        hooks=dict(guard='PYXTUML_VERIF', enable='no hooks: the checks observe pyxtuml through its public API; CrossHair '
                   'compatibility shims live in engine/chpatch.py',
                   baseline_off_cmd='cd /repo && /venv/bin/python -m pytest -ra -q -p no:cacheprovider --timeout=900 '
                                    '--continue-on-collection-errors',
                   source_commits=[], add_only=True),
        engines=[dict(name='pyxtuml-solver-harness', path='engine/main.py',
                      serves_properties=sorted(CLAIMED),
                      kind_free_text='CrossHair 0.0.110 (symbolic execution of the real Python code, z3 per branch) over '
                                     'contract harnesses in harness/, plus direct z3 queries generated from the current source; '
                                     'scratch copy of /repo working tree with regenerated PLY tables per run; every '
                                     'counterexample replayed in a plain interpreter before it is reported')],
        checks=checks,
        notes='See DESIGN.md. Exit codes: 0 held on everything explored, 1 reproduced violation (VIOLATION line), 3 harness error.',
        not_applicable=[dict(property_id=k, reason=v) for k, v in sorted(NOT_YET.items()) if k not in CLAIMED])
    with open(os.path.join(ROOT, 'MANIFEST.json'), 'w') as f:
        json.dump(m, f, indent=1)
    try:
        import jsonschema
        jsonschema.validate(m, json.load(open('/root/.vp/MANIFEST.schema.json')))
        print('MANIFEST.json valid;', len(checks), 'checks')
    except ImportError:
        print('written (jsonschema not available to validate)')


main()
