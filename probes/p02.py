import xtuml
from xtuml import relate, unrelate, navigate_many as many, navigate_one as one

def mk():
    m = xtuml.MetaModel(xtuml.IntegerGenerator())
    m.define_class('A', [('Id', 'unique_id')])
    m.define_class('B', [('Id', 'unique_id'), ('A_Id', 'unique_id')])
    a = m.define_association('R1', 'B', ['A_Id'], True, True, '', 'A', ['Id'], False, True, '')
    a.formalize()
    return m

def snapshot(m, As, Bs):
    return ([tuple(Bs.index(b) for b in many(a).B[1]()) for a in As],
            [tuple(As.index(a) for a in many(b).A[1]()) for b in Bs])

def step(m, As, Bs, op, i, j):
    a = As[i]; b = Bs[j]
    before = snapshot(m, As, Bs)
    try:
        if op == 0: relate(a, b, 1)
        elif op == 1: relate(b, a, 1)
        elif op == 2: unrelate(a, b, 1)
        else: unrelate(b, a, 1)
        ok = True
    except xtuml.MetaException:
        ok = False
    after = snapshot(m, As, Bs)
    # symmetry
    for x, bs in enumerate(after[0]):
        for y in bs:
            if x not in after[1][y]: return False
    for y, as_ in enumerate(after[1]):
        for x in as_:
            if y not in after[0][x]: return False
    if not ok and before != after: return False
    return True

def check(o1: int, i1: int, j1: int, o2: int, i2: int, j2: int, o3: int, i3: int, j3: int) -> bool:
    """
    pre: 0 <= o1 < 4 and 0 <= o2 < 4 and 0 <= o3 < 4
    pre: 0 <= i1 < 2 and 0 <= i2 < 2 and 0 <= i3 < 2
    pre: 0 <= j1 < 2 and 0 <= j2 < 2 and 0 <= j3 < 2
    post: _
    """
    m = mk()
    As = [m.new('A') for _ in range(2)]
    Bs = [m.new('B') for _ in range(2)]
    for o, i, j in ((o1,i1,j1),(o2,i2,j2),(o3,i3,j3)):
        if not step(m, As, Bs, o, i, j): return False
    return True
