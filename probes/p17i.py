from typing import List
from xtuml.tools import OrderedSet
from xtuml.meta import QuerySet

def wf(s):
    # representation invariant
    end = s.end; seen = []; cur = end[2]; n = 0
    while cur is not end:
        if cur[2][1] is not cur or cur[1][2] is not cur: return False
        if s.map.get(cur[0]) is not cur: return False
        seen.append(cur[0]); cur = cur[2]; n += 1
        if n > 50: return False
    return len(seen) == len(s.map) and end[1][2] is end and end[2][1] is end

def distinct(xs): 
    return all(xs[i] != xs[j] for i in range(len(xs)) for j in range(i + 1, len(xs)))

def step(xs: List[int], ys: List[int], op: int, k: int) -> bool:
    """
    pre: len(xs) <= 3 and len(ys) <= 2 and all(0 <= x < 4 for x in xs) and all(0 <= y < 4 for y in ys)
    pre: distinct(xs) and distinct(ys) and 0 <= op < 14 and 0 <= k < 4
    post: _
    """
    s = QuerySet(xs); o = OrderedSet(ys); m = list(xs)
    if not wf(s): return False
    res = None; exp = None
    if op == 0:
        s.add(k); m = m + ([k] if k not in m else [])
    elif op == 1:
        s.discard(k); m = [x for x in m if x != k]
    elif op == 2:
        try: s.remove(k); ok = True
        except KeyError: ok = False
        if ok != (k in m): return False
        m = [x for x in m if x != k]
    elif op == 3:
        try: res = s.pop()
        except KeyError: res = 'E'
        exp = m[-1] if m else 'E'; m = m[:-1]
    elif op == 4:
        try: res = s.pop(last=False)
        except KeyError: res = 'E'
        exp = m[0] if m else 'E'; m = m[1:]
    elif op == 5: s.clear(); m = []
    elif op == 6: s |= o; m = m + [y for y in ys if y not in m]
    elif op == 7: s &= o; m = [x for x in m if x in ys]
    elif op == 8: s -= o; m = [x for x in m if x not in ys]
    elif op == 9:
        s ^= o; m = [x for x in m if x not in ys] + [y for y in ys if y not in xs]
    elif op == 10:
        r = s | o; 
        if sorted(r) != sorted(set(m) | set(ys)) or len(r) != len(set(m) | set(ys)): return False
    elif op == 11:
        r = s & o
        if sorted(r) != sorted(set(m) & set(ys)): return False
    elif op == 12:
        r = s - o
        if sorted(r) != sorted(set(m) - set(ys)): return False
    else:
        if (s == o) != (m == list(ys)) or (s == list(ys)) != (m == list(ys)): return False
    if res != exp: return False
    if list(o) != list(ys): return False
    return (wf(s) and list(s) == m and list(reversed(s)) == m[::-1] and len(s) == len(m)
            and all((x in s) == (x in m) for x in range(4)) and s.first == (m[0] if m else None) and s.last == (m[-1] if m else None))
