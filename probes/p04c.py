import xtuml
from bridgepoint import interpret, ooaofooa, oal
from crosshair.tracers import NoTracing
from p04 import PROG, mk

def check(v1: int, v2: int, v3: int, k: int, j: int) -> int:
    """
    post: _ == sum(1 for v in (v1, v2, v3) if v > k) * 100 + sum(v for v in (v1,v2,v3) if v > k and v % 2 != 0) + j
    """
    with NoTracing():
        root = oal.parse(PROG, 'f')
    m = mk()
    for v in (v1, v2, v3):
        m.new('B', v=v)
    w = interpret.FunctionWalker(m, dict(k=k, j=j))
    w.accept(root)
    return w.return_value
