import sys, time
import z3
from ply import yacc
from bridgepoint import oal

obj = object.__new__(oal.OALParser)
P = yacc.yacc(module=obj, write_tables=False, debug=False, errorlog=yacc.NullLogger(), optimize=0, tabmodule='__nonexistent_tab')
prods = P.productions
BIN = ['PLUS','MINUS','PIPE','TIMES','DIV','MOD','AMP','CARET','LE','LESSTHAN','DOUBLEEQUAL','NOTEQUAL','GE','GT','AND','OR']
UNY = ['NOT','EMPTY','NOT_EMPTY','CARDINALITY','PLUS','MINUS']
OPERANDS = ['NUMBER','TRUE']
REF = {'OR':1,'AND':2,'LE':3,'LESSTHAN':3,'DOUBLEEQUAL':3,'NOTEQUAL':3,'GE':3,'GT':3,
       'PLUS':4,'MINUS':4,'PIPE':4,'TIMES':5,'DIV':5,'AMP':5,'CARET':5,'MOD':6}
ALPHA = OPERANDS + BIN + [u for u in UNY if u not in BIN] + ['LPAREN','RPAREN']
FRAME = ['RETURN','SEMICOLON','$end']
TOK = {name:i for i,name in enumerate(ALPHA + FRAME)}
nts = sorted({pr.name for pr in prods}); NT = {n:i for i,n in enumerate(nts)}
reach = {0}; work=[0]
while work:
    s = work.pop()
    for tok, a in P.action.get(s, {}).items():
        if tok in TOK and a is not None and a > 0 and a not in reach: reach.add(a); work.append(a)
    for nt, g in P.goto.get(s, {}).items():
        if g not in reach: reach.add(g); work.append(g)
# renumber states compactly
SID = {s:i for i,s in enumerate(sorted(reach))}
W = 9  # bit width for states / actions
def bv(v, w=W): return z3.BitVecVal(v, w)
# action encoding: kind (0 err, 1 shift, 2 reduce, 3 accept) + arg
acts = []  # (sid, tok, kind, arg)
usedprods = set()
for st in sorted(reach):
    for tok, v in P.action.get(st, {}).items():
        if tok not in TOK or v is None: continue
        if v > 0: acts.append((SID[st], TOK[tok], 1, SID[v]))
        elif v < 0: acts.append((SID[st], TOK[tok], 2, -v)); usedprods.add(-v)
        else: acts.append((SID[st], TOK[tok], 3, 0))
gotos = [(SID[st], NT[nt], SID[v]) for st in sorted(reach) for nt, v in P.goto.get(st, {}).items()]
def pinfo(r):
    pr = prods[r]; kind = 0; lvl = 0
    if pr.name == 'expression':
        if pr.len == 3 and pr.prod[0] == 'expression' and pr.prod[2] == 'expression': kind = 3; lvl = REF[pr.prod[1]]
        elif pr.len == 2 and pr.prod[0] == 'unary_operator': kind = 2
        else: kind = 1
    return pr.len, NT[pr.name], kind, lvl
print('states', len(reach), 'acts', len(acts), 'gotos', len(gotos), 'used prods', len(usedprods), 'maxlen', max(prods[r].len for r in usedprods))

def run(N, timeout_ms):
    T = 3 * N + 14; D = N + 6
    s = z3.SolverFor('QF_BV'); s.set('timeout', timeout_ms)
    toks = [z3.BitVec('t%d' % i, 6) for i in range(N)]
    ln = z3.BitVec('len', 5); s.add(ln == N)
    for t in toks: s.add(z3.ULT(t, len(ALPHA)))
    def inp(pos):
        e = z3.BitVecVal(TOK['$end'], 6)
        for i in range(N + 2):
            if i == 0: v = z3.BitVecVal(TOK['RETURN'], 6)
            else:
                j = i - 1
                v = z3.If(z3.ULT(bv(j,5), ln), toks[j] if j < N else z3.BitVecVal(0,6), z3.If(ln == j, z3.BitVecVal(TOK['SEMICOLON'],6), z3.BitVecVal(TOK['$end'],6)))
            e = z3.If(pos == i, v, e)
        return e
    def rd(arr, idx, w):
        e = z3.BitVecVal(0, w)
        for j in range(D): e = z3.If(idx == j, arr[j], e)
        return e
    st = [bv(0)] + [bv(0) for _ in range(D - 1)]
    lb = [z3.BitVecVal(15, 4) for _ in range(D)]
    sp = z3.BitVecVal(0, 5); pos = z3.BitVecVal(0, 5)
    running = z3.BoolVal(True); accepted = z3.BoolVal(False); bad = z3.BoolVal(False); overflow = z3.BoolVal(False)
    for k in range(T):
        stk = [z3.BitVec('st%d_%d' % (k, j), W) for j in range(D)]; lbk = [z3.BitVec('lb%d_%d' % (k, j), 4) for j in range(D)]
        spk = z3.BitVec('sp%d' % k, 5); pk = z3.BitVec('pos%d' % k, 5); rk = z3.Bool('run%d' % k)
        for j in range(D): s.add(stk[j] == st[j], lbk[j] == lb[j])
        s.add(spk == sp, pk == pos, rk == running)
        top = rd(stk, spk, W); la = inp(pk)
        akind = z3.BitVec('ak%d' % k, 2); aarg = z3.BitVec('aa%d' % k, W)
        ek = z3.BitVecVal(0, 2); ea = bv(0)
        for (sid, tok, kind, arg) in acts:
            c = z3.And(top == sid, la == tok); ek = z3.If(c, z3.BitVecVal(kind, 2), ek); ea = z3.If(c, bv(arg), ea)
        s.add(akind == ek, aarg == ea)
        is_shift = z3.And(rk, akind == 1); is_red = z3.And(rk, akind == 2); is_acc = z3.And(rk, akind == 3); is_err = z3.And(rk, akind == 0)
        plen = z3.BitVecVal(0,5); lhs = z3.BitVecVal(0,8); kind = z3.BitVecVal(0,2); lvl = z3.BitVecVal(0,4)
        for r in sorted(usedprods):
            pl, nt, kd, lv = pinfo(r); c = aarg == r
            plen = z3.If(c, z3.BitVecVal(pl,5), plen); lhs = z3.If(c, z3.BitVecVal(nt,8), lhs); kind = z3.If(c, z3.BitVecVal(kd,2), kind); lvl = z3.If(c, z3.BitVecVal(lv,4), lvl)
        base = spk - plen
        under = rd(stk, base, W)
        g = bv(0)
        for (sid, nt, v) in gotos: g = z3.If(z3.And(under == sid, lhs == nt), bv(v), g)
        gk = z3.BitVec('g%d' % k, W); s.add(gk == g)
        lc = rd(lbk, spk - 2, 4); rc = rd(lbk, spk, 4)
        atomish = lambda c: z3.Or(c == 0, c == 7)
        okl = z3.Or(atomish(lc), z3.If(lvl == 3, z3.UGT(lc, lvl), z3.UGE(lc, lvl)), ); okr = z3.Or(atomish(rc), z3.UGT(rc, lvl))
        # labels 15 = non-expression; guard: children of expr reductions are expressions
        viol = z3.If(kind == 2, z3.Not(atomish(rc)), z3.If(kind == 3, z3.Not(z3.And(okl, okr, lc != 15, rc != 15)), False))
        lab = z3.If(kind == 1, z3.BitVecVal(0,4), z3.If(kind == 2, z3.BitVecVal(7,4), z3.If(kind == 3, lvl, z3.BitVecVal(15,4))))
        nsp = z3.If(is_shift, spk + 1, z3.If(is_red, base + 1, spk))
        overflow = z3.Or(overflow, z3.And(z3.Or(is_shift, is_red), z3.UGE(nsp, D)))
        st = [z3.If(z3.And(is_shift, spk + 1 == j), aarg, z3.If(z3.And(is_red, base + 1 == j), gk, stk[j])) for j in range(D)]
        lb = [z3.If(z3.And(is_shift, spk + 1 == j), z3.BitVecVal(15,4), z3.If(z3.And(is_red, base + 1 == j), lab, lbk[j])) for j in range(D)]
        sp = nsp; pos = z3.If(is_shift, pk + 1, pk)
        bad = z3.Or(bad, z3.And(is_red, viol)); accepted = z3.Or(accepted, is_acc)
        running = z3.And(rk, z3.Not(is_acc), z3.Not(is_err))
    return s, toks, ln, running, accepted, bad, overflow

if __name__ == '__main__':
    N = int(sys.argv[1]); t0 = time.time()
    s, toks, ln, running, accepted, bad, overflow = run(N, 600000)
    print('encoded in %.1fs' % (time.time() - t0), flush=True)
    def q(name, *cs, expect=None):
        s.push(); s.add(*cs); t = time.time(); r = s.check()
        print(name, r, '%.1fs' % (time.time() - t), '(expect %s)' % expect, flush=True)
        if r == z3.sat:
            m = s.model(); n = m.eval(ln).as_long(); print('   ', [ALPHA[m.eval(x, model_completion=True).as_long()] for x in toks[:n]], flush=True)
        s.pop()
    q('unwind', z3.Or(running, overflow), expect='unsat')
    q('witness', accepted, ln == N, expect='sat')
    q('soundness', accepted, bad, expect='unsat')
