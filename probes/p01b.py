from xtuml.load import deserialize_value
from xtuml.persist import serialize_value

def rt_str2(v: str) -> str:
    """
    pre: len(v) <= 2
    post: _ == v
    """
    return deserialize_value('STRING', serialize_value(v, 'STRING'))

def rt_str3(v: str) -> str:
    """
    pre: len(v) <= 3
    post: _ == v
    """
    return deserialize_value('STRING', serialize_value(v, 'STRING'))

def ser_shape(v: str) -> bool:
    """
    pre: len(v) <= 3
    post: _
    """
    s = serialize_value(v, 'STRING')
    # token shape: quotes at both ends, inner quotes doubled
    inner = s[1:-1]
    i = 0
    while i < len(inner):
        if inner[i] == "'":
            if i + 1 >= len(inner) or inner[i+1] != "'":
                return False
            i += 2
        else:
            i += 1
    return s[0] == "'" and s[-1] == "'" and len(s) >= 2
