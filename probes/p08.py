import xtuml
from bridgepoint import interpret, ooaofooa, oal
from crosshair.tracers import NoTracing

PROG = 'select many bs from instances of B where (selected.v > param.k and true); return cardinality bs;'

def mk():
    m = ooaofooa.Domain(xtuml.IntegerGenerator())
    m.define_class('B', [('Id', 'unique_id'), ('v', 'integer')])
    return m

def find(node, cls, out):
    if isinstance(node, cls): out.append(node)
    for c in getattr(node, 'children', ()) or ():
        if c is not None: find(c, cls, out)

def check(s: str, t: str, v1: int, v2: int, k: int) -> int:
    """
    pre: len(s) == 4 and s[0] in 'mM' and s[1] in 'aA' and s[2] in 'nN' and s[3] in 'yY'
    pre: len(t) == 3 and t[0] in 'aA' and t[1] in 'nN' and t[2] in 'dD'
    post: _ == sum(1 for v in (v1, v2) if v > k)
    """
    with NoTracing():
        root = oal.parse(PROG, 'f')
        sel = []; find(root, oal.SelectFromWhereNode, sel)
        ands = []; find(root, oal.BinaryOperationNode, ands)
        ands = [n for n in ands if n.operator == 'and']
    sel[0].cardinality = s
    ands[0].operator = t
    m = mk()
    for v in (v1, v2): m.new('B', v=v)
    w = interpret.FunctionWalker(m, dict(k=k))
    w.accept(root)
    return w.return_value
