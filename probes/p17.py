from typing import List, Tuple
import xtuml
from xtuml.tools import OrderedSet

def model_apply(m: list, op: int, k: int) -> None:
    if op == 0:
        if k not in m: m.append(k)
    elif op == 1:
        if k in m: m.remove(k)
    elif op == 2:
        if m: m.pop()
    elif op == 3:
        if m: m.pop(0)

def real_apply(s: OrderedSet, op: int, k: int) -> None:
    if op == 0:
        s.add(k)
    elif op == 1:
        s.discard(k)
    elif op == 2:
        if len(s): s.pop()
    elif op == 3:
        if len(s): s.pop(last=False)

def check3(o1: int, k1: int, o2: int, k2: int, o3: int, k3: int) -> bool:
    """
    pre: 0 <= o1 < 4 and 0 <= o2 < 4 and 0 <= o3 < 4 and 0 <= k1 < 3 and 0 <= k2 < 3 and 0 <= k3 < 3
    post: _
    """
    s = OrderedSet()
    m = []
    for o, k in ((o1, k1), (o2, k2), (o3, k3)):
        real_apply(s, o, k)
        model_apply(m, o, k)
    return list(s) == m and list(reversed(s)) == m[::-1] and len(s) == len(m)
