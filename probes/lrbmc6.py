import sys, time
src = open('/tmp/probe/p/lrbmc4.py').read().split("if __name__ == '__main__':")[0]
exec(src)
N = int(sys.argv[1]); prefix = [x for x in sys.argv[2].split(',') if x]
s, toks, ln, running, accepted, bad, overflow = run(N, 600000)
for i, name in enumerate(prefix): s.add(toks[i] == ALPHA.index(name))
ix = lambda names: [ALPHA.index(x) for x in names]
def isin(t, names): return z3.Or([t == i for i in ix(names)])
OPND = OPERANDS; UNCAP = ['NOT','EMPTY','NOT_EMPTY','CARDINALITY','PLUS','MINUS']; CMP = ['LE','LESSTHAN','DOUBLEEQUAL','NOTEQUAL','GE','GT']
# state machine X (expect operand) / Y (after operand), depth counter
X = z3.BoolVal(True); depth = z3.BitVecVal(0, 4); ok = z3.BoolVal(True); depths = []
for i in range(N):
    t = toks[i]; depths.append(depth)
    okX = z3.Or(isin(t, UNCAP), t == ALPHA.index('LPAREN'), isin(t, OPND))
    okY = z3.Or(isin(t, BIN), z3.And(t == ALPHA.index('RPAREN'), z3.UGE(depth, 1)))
    ok = z3.And(ok, z3.If(X, okX, okY))
    nX = z3.If(X, z3.Not(isin(t, OPND)), isin(t, BIN))
    depth = z3.If(z3.And(X, t == ALPHA.index('LPAREN')), depth + 1, z3.If(z3.And(z3.Not(X), t == ALPHA.index('RPAREN')), depth - 1, depth))
    X = nX
ok = z3.And(ok, z3.Not(X), depth == 0)
# token depth for operators = depth before token (operators never change depth)
na = z3.BoolVal(True)
for i in range(N):
    for j in range(i + 1, N):
        same = z3.And(isin(toks[i], CMP), isin(toks[j], CMP), depths[i] == depths[j], *[z3.UGE(depths[k], depths[i]) for k in range(i + 1, j)])
        sep = z3.Or([z3.And(isin(toks[k], ['AND', 'OR']), depths[k] == depths[i]) for k in range(i + 1, j)] or [z3.BoolVal(False)])
        na = z3.And(na, z3.Implies(same, sep))
wellformed = z3.And(ok, na)
for name, cs in (('complete: wellformed & !accepted', [wellformed, z3.Not(accepted)]), ('spec-tight: accepted & !wellformed', [accepted, z3.Not(wellformed)])):
    s.push(); s.add(*cs); t = time.time(); r = s.check(); print(N, prefix, name, r, '%.1fs' % (time.time() - t), flush=True)
    if r == z3.sat:
        m = s.model(); print('   ', [ALPHA[m.eval(x, model_completion=True).as_long()] for x in toks], 'ok', m.eval(ok), 'na', m.eval(na), 'acc', m.eval(accepted), 'depths', [m.eval(d) for d in depths])
    s.pop()
