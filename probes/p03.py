import xtuml
from xtuml import navigate_many as many
from crosshair.tracers import NoTracing

def check(a1: int, a2: int, b1: int, b2: int, b3: int) -> bool:
    """
    pre: 0 <= a1 <= 2 and 0 <= a2 <= 2 and 0 <= b1 <= 2 and 0 <= b2 <= 2 and 0 <= b3 <= 2
    post: _
    """
    with NoTracing():
        l = xtuml.ModelLoader()
        l.input('CREATE TABLE A (Id UNIQUE_ID); CREATE TABLE B (Id UNIQUE_ID, A_Id UNIQUE_ID);'
                'CREATE ROP REF_ID R1 FROM MC B (A_Id) TO 1C A (Id);')
        m = xtuml.MetaModel(xtuml.IntegerGenerator())
        l.populate_classes(m); l.populate_unique_identifiers(m); l.populate_associations(m)
    As = []; Bs = []
    for v in (a1, a2):
        i = m.new('A'); i.__dict__['Id'] = v; As.append(i)
    for k, v in enumerate((b1, b2, b3)):
        i = m.new('B'); i.__dict__['Id'] = 10 + k; i.__dict__['A_Id'] = v; Bs.append(i)
    l.populate_connections(m)
    avals = (a1, a2); bvals = (b1, b2, b3)
    for i, a in enumerate(As):
        exp = [b for j, b in enumerate(Bs) if bvals[j] != 0 and bvals[j] == avals[i]]
        got = list(many(a).B[1]())
        if len(got) != len(exp) or any(x is not y for x, y in zip(got, exp)): return False
    for j, b in enumerate(Bs):
        exp = [a for i, a in enumerate(As) if bvals[j] != 0 and bvals[j] == avals[i]]
        got = list(many(b).A[1]())
        if len(got) != len(exp) or any(x is not y for x, y in zip(got, exp)): return False
        # referential attribute reads as identifying attr of linked instance
        if exp and b.A_Id != avals[As.index(exp[0])]: return False
    return True
