import xtuml, sys, time
from bridgepoint import ooaofooa, oal, prebuild, sourcegen
from crosshair.tracers import NoTracing

_real_parse = oal.parse
def _parse_untraced(text, label='<string>'):
    with NoTracing():
        return _real_parse(text, label)
oal.parse = _parse_untraced

with open('/dev/null') as f: pass
LOADER = None

PROGS = ['x = 1 + 2 * 3; if (x > 3) y = 1; end if; return x;',
         'create object instance a of OBJECT; select many s from instances of OBJECT; for each o in s delete object instance o; end for;']

def setup():
    global LOADER
    if LOADER is None:
        LOADER = ooaofooa.Loader()
    m = LOADER.build_metamodel()
    pe_pe = m.new('PE_PE'); s_sync = m.new('S_SYNC'); xtuml.relate(s_sync, pe_pe, 8001)
    s_dt = m.select_any('S_DT', lambda sel: sel.Name == 'void'); xtuml.relate(s_dt, s_sync, 25)
    pe_pe2 = m.new('PE_PE'); o_obj = m.new('O_OBJ'); o_obj.Key_Lett = 'OBJECT'; o_obj.Name = 'OBJECT'
    xtuml.relate(o_obj, pe_pe2, 8001)
    return m, s_sync

def check(i: int) -> bool:
    """
    pre: 0 <= i < 2
    post: _
    """
    with NoTracing():
        m, s_sync = setup()
        t = time.perf_counter()
    s_sync.Action_Semantics_internal = PROGS[i]
    s_sync.Suc_Pars = 1
    prebuild.prebuild_action(s_sync)
    with NoTracing():
        t1 = time.perf_counter()
    txt = sourcegen.gen_text_action(s_sync)
    with NoTracing():
        t2 = time.perf_counter()
        sys.stderr.write('prebuild %.2f gen %.2f\n' % (t1 - t, t2 - t1))
    return len(txt) > 0
