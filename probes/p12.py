from xtuml.load import deserialize_value
TYPES = ['BOOLEAN', 'INTEGER', 'REAL', 'STRING', 'UNIQUE_ID', 'FOO']
def deser_total(t: int, value: str) -> bool:
    """
    pre: 0 <= t < 6
    pre: 1 <= len(value) <= 3
    post: _
    """
    deserialize_value(TYPES[t], value)
    return True
