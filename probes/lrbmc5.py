import sys, time
src = open('/tmp/probe/p/lrbmc4.py').read().split("if __name__ == '__main__':")[0]
exec(src)
N = int(sys.argv[1]); prefix = [x for x in sys.argv[2].split(',') if x]
t0 = time.time()
s, toks, ln, running, accepted, bad, overflow = run(N, 600000)
for i, name in enumerate(prefix): s.add(toks[i] == ALPHA.index(name))
print('encoded %.1fs' % (time.time() - t0), flush=True)
for name, cs in (('unwind', [z3.Or(running, overflow)]), ('witness', [accepted]), ('soundness', [accepted, bad])):
    s.push(); s.add(*cs); t = time.time(); r = s.check(); print(N, prefix, name, r, '%.1fs' % (time.time() - t), flush=True); s.pop()
