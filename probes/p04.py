import xtuml
from bridgepoint import interpret, ooaofooa, oal
from crosshair.tracers import NoTracing

PROG = '''
select many bs from instances of B where (selected.v > param.k);
n = cardinality bs;
s = 0;
for each b in bs
  if (b.v % 2 == 0)
    continue;
  end if;
  s = s + b.v;
end for;
return n * 100 + s + param.j;
'''

def mk():
    m = ooaofooa.Domain(xtuml.IntegerGenerator())
    m.define_class('B', [('Id', 'unique_id'), ('v', 'integer')])
    return m

def check(v1: int, v2: int, v3: int, k: int, j: int) -> int:
    """
    post: _ == sum(1 for v in (v1, v2, v3) if v > k) * 100 + sum(v for v in (v1,v2,v3) if v > k and v % 2 != 0) + j
    """
    m = mk()
    for v in (v1, v2, v3):
        m.new('B', v=v)
    return interpret.run_function(m, 'f', PROG, dict(k=k, j=j))
