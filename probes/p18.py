import xtuml
from crosshair.tracers import NoTracing
SCHEMA = '''CREATE TABLE A (Id UNIQUE_ID, N INTEGER); CREATE TABLE B (Id UNIQUE_ID, A_Id UNIQUE_ID, S STRING);
CREATE ROP REF_ID R1 FROM MC B (A_Id) TO 1C A (Id); CREATE UNIQUE INDEX I1 ON A (Id);
INSERT INTO A VALUES (1, 5); INSERT INTO A VALUES (2, 6); INSERT INTO B VALUES (10, 1, 'x'); INSERT INTO B VALUES (11, 2, 'y');'''
MORE = "INSERT INTO B VALUES (12, 1, 'z');"

def check(op: int, i: int, v: int) -> bool:
    """
    pre: 0 <= op < 5 and 0 <= i < 2
    post: _
    """
    with NoTracing():
        l = xtuml.ModelLoader(); l.input(SCHEMA)
    m1 = l.build_metamodel(xtuml.IntegerGenerator())
    m2 = l.build_metamodel(xtuml.IntegerGenerator())
    before = xtuml.serialize(m2)
    As = list(m1.select_many('A')); Bs = list(m1.select_many('B'))
    if op == 0: As[i].N = v
    elif op == 1: xtuml.delete(Bs[i])
    elif op == 2: xtuml.unrelate(Bs[i], As[i], 1)
    elif op == 3: m1.new('A', N=v)
    else: m1.find_metaclass('A').append_attribute('Extra', 'integer')
    with NoTracing():
        l.input(MORE)
    m3 = l.build_metamodel(xtuml.IntegerGenerator())
    return xtuml.serialize(m2) == before and len(m3.select_many('B')) == 3 and len(m1.select_many('B')) <= 2
