# CrossHair plugin: keep object identity in 3-arg type() calls
import crosshair.core as core
from crosshair.core import realize
from crosshair.tracers import NoTracing
from crosshair.libimpl.builtinslib import python_type

def _type(*a):
    with NoTracing():
        if len(a) == 1:
            return python_type(a[0])
        name = realize(a[0])
        return type(str(name), tuple(a[1]), dict(a[2]))

core._PATCH_REGISTRATIONS[type] = _type
