import sys; sys.path.insert(0, '/tmp/probe/p'); import chpatch
