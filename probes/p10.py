import xtuml
from crosshair.tracers import NoTracing

def spell(name, bits):
    return ''.join(c.upper() if b else c.lower() for c, b in zip(name, bits))

def check(a0: bool, a1: bool, b0: bool, b1: bool, c0: bool, c1: bool, v1: int, v2: int) -> bool:
    """
    post: _
    """
    with NoTracing():
        m = xtuml.MetaModel(xtuml.IntegerGenerator())
        m.define_class('K', [('Id', 'unique_id'), ('Ab', 'integer')])
    inst = m.new('K')
    setattr(inst, spell('ab', (a0, a1)), v1)
    setattr(inst, spell('ab', (b0, b1)), v2)
    return getattr(inst, spell('ab', (c0, c1))) == v2
