from bridgepoint import oal
from ply import lex
from crosshair.tracers import NoTracing
import time, sys, os
def check(s: str) -> bool:
    """
    pre: len(s) <= 2
    post: _
    """
    with NoTracing():
        p = oal.OALParser()
        lexer = lex.lex(optimize=1, module=p, outputdir=os.path.dirname(oal.__file__), lextab="bridgepoint.__oal_lextab")
        lexer.label = 'x'
    try:
        r = p.parser.parse(lexer=lexer, input=s + '\n', tracking=1)
    except oal.ParseException:
        return True
    return r is not None
