import xtuml
from xtuml import relate, navigate_one as one
from crosshair.tracers import NoTracing

def mk():
    m = xtuml.MetaModel(xtuml.IntegerGenerator())
    m.define_class('A', [('Id', 'unique_id'), ('Next_Id', 'unique_id')])
    ass = m.define_association('R1', 'A', ['Next_Id'], False, True, 'prev', 'A', ['Id'], False, True, 'next')
    ass.formalize()
    return m

def check(n0: int, n1: int, n2: int, n3: int, fwd: bool) -> bool:
    """
    pre: -1 <= n0 < 4 and -1 <= n1 < 4 and -1 <= n2 < 4 and -1 <= n3 < 4
    post: _
    """
    nxt = [n0, n1, n2, n3]
    N = 4
    # injective successor, no self loops
    seen = []
    for i in range(N):
        if nxt[i] == i: return True
        if nxt[i] >= 0:
            if nxt[i] in seen: return True
            seen.append(nxt[i])
    # acyclic (chains only) for this probe
    for i in range(N):
        j = i; steps = 0
        while j >= 0 and steps <= N:
            j = nxt[j]; steps += 1
        if steps > N: return True
    with NoTracing():
        m = mk()
    insts = [m.new('A') for _ in range(N)]
    for i in range(N):
        if nxt[i] >= 0:
            relate(insts[i], insts[nxt[i]], 1, 'next')
    res = list(xtuml.sort_reflexive(m.select_many('A'), 1, 'prev' if fwd else 'next'))
    # oracle
    if fwd:
        heads = [i for i in range(N) if i not in nxt]
        step = lambda i: nxt[i]
    else:
        heads = [i for i in range(N) if nxt[i] < 0]
        prev = {nxt[i]: i for i in range(N) if nxt[i] >= 0}
        step = lambda i: prev.get(i, -1)
    exp = []
    for h in heads:
        j = h
        while j >= 0:
            exp.append(insts[j]); j = step(j)
    return len(res) == len(exp) and all(a is b for a, b in zip(res, exp))
