import xtuml, sys, time
from bridgepoint import ooaofooa
from xtuml import navigate_one as one
from crosshair.tracers import NoTracing

LOADER = None
def load():
    global LOADER
    if LOADER is None:
        LOADER = ooaofooa.Loader()
        LOADER.filename_input('/repo/tests/resources/Simple_Model.xtuml')
    return LOADER.build_metamodel()

def check(fm: int, fc: int, pm: int, pc: int) -> bool:
    """
    pre: 0 <= fm <= 1 and 0 <= fc <= 1 and 0 <= pm <= 1 and 0 <= pc <= 1
    post: _
    """
    with NoTracing():
        mm = load()
        r_simp = mm.select_any('R_SIMP')
        r_form = one(r_simp).R_FORM[208](); r_part = one(r_simp).R_PART[207]()
        r_rel = one(r_simp).R_REL[206]()
        t0 = time.perf_counter()
    r_form.Mult = fm; r_form.Cond = fc; r_part.Mult = pm; r_part.Cond = pc
    c = ooaofooa.mk_component(mm)
    with NoTracing():
        sys.stderr.write('mk_component %.2fs\n' % (time.perf_counter() - t0))
    ass = [a for a in c.associations if a.rel_id == 'R%d' % r_rel.Numb][0]
    # source = formalizer, target = participant
    return (bool(ass.source_link.many) == bool(fm) and bool(ass.source_link.conditional) == bool(fc)
            and bool(ass.target_link.many) == bool(pm) and bool(ass.target_link.conditional) == bool(pc))
