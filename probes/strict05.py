import sys, io, contextlib, inspect, importlib, unittest
sys.path.insert(0, '/repo')
import xtuml
from bridgepoint import oal, prebuild, sourcegen, ooaofooa
from tests.test_bridgepoint import utils

def strict(x, y, path='root'):
    if x is None or y is None:
        return [] if x is y else ['%s: %r vs %r' % (path, x, y)]
    if type(x) is not type(y):
        return ['%s: class %s vs %s' % (path, type(x).__name__, type(y).__name__)]
    out = []
    for k, v in vars(x).items():
        if k in ('position', 'character_stream', 'children'): continue
        w = getattr(y, k, None)
        if isinstance(v, oal.Node) or isinstance(w, oal.Node): continue
        if isinstance(v, str) and isinstance(w, str):
            if v != w: out.append('%s.%s: %r vs %r' % (path, k, v, w))
        elif v != w and not isinstance(v, list): out.append('%s.%s: %r vs %r' % (path, k, v, w))
    cx = [c for c in (x.children or ())]; cy = [c for c in (y.children or ())]
    if len(cx) != len(cy): out.append('%s: %d vs %d children' % (path, len(cx), len(cy)))
    for i, (a, b) in enumerate(zip(cx, cy)):
        out += strict(a, b, '%s/%s[%d]' % (path, type(x).__name__, i))
    return out

results = {}
class Capture(utils.PrebuildFunctionTestCase):
    def prebuild_text(self, s):
        s_sync = self.metamodel.select_any('S_SYNC')
        s_sync.Action_Semantics_internal = s; s_sync.Suc_Pars = 1
        prebuild.prebuild_model(self.metamodel)
        gen = sourcegen.gen_text_action(s_sync)
        try:
            d = strict(oal.parse(s), oal.parse(gen))
        except Exception as e:
            d = ['EXC %r' % e]
        results[self.id()] = (s, gen, d)

import glob, os
mods = [os.path.basename(f)[:-3] for f in glob.glob('/repo/tests/test_bridgepoint/test_*.py')]
suite = unittest.TestSuite()
for mn in mods:
    mod = importlib.import_module('tests.test_bridgepoint.' + mn)
    for name, cls in inspect.getmembers(mod, inspect.isclass):
        if issubclass(cls, utils.PrebuildFunctionTestCase) and cls is not utils.PrebuildFunctionTestCase:
            patched = type(cls.__name__, (cls,), {'prebuild_text': Capture.prebuild_text})
            suite.addTests(unittest.defaultTestLoader.loadTestsFromTestCase(patched))
with contextlib.redirect_stdout(io.StringIO()), contextlib.redirect_stderr(io.StringIO()):
    unittest.TextTestRunner(stream=io.StringIO()).run(suite)
bad = {k: v for k, v in results.items() if v[2]}
print(len(results), 'programs;', len(bad), 'with strict differences')
for k, (s, gen, d) in bad.items():
    print('---', k.split('.')[-1]); print('   src:', ' '.join(s.split())[:150]); print('   gen:', ' '.join(gen.split())[:150])
    for x in d[:4]: print('   *', x)
