# bounded round trip: deserialize(STRING, serialize(v, STRING)) == v for all |v| <= N over all code points,
# and the serialized form is in L(t_STRING) with no longer match when followed by ',' / ' ' / '\n'
import z3, time, sys
N = int(sys.argv[1])
mut = sys.argv[2] if len(sys.argv) > 2 else ''
Q = "'"
n = z3.Int('n')
cs = [z3.String('c%d' % i) for i in range(N)]          # each a length-1 string (any char)
s = z3.Solver(); s.set('timeout', 120000)
s.add(n >= 0, n <= N)
for c in cs: s.add(z3.Length(c) == 1)
E = z3.StringVal('')
v = E
for i in range(N): v = z3.Concat(v, z3.If(i < n, cs[i], E))
# escape: replace(A, B) with |A| == 1   (A,B would be extracted from the source)
A, B = "'", ("''" if mut != 'noescape' else "'")
inner = E
for i in range(N): inner = z3.Concat(inner, z3.If(i < n, z3.If(cs[i] == z3.StringVal(A), z3.StringVal(B), cs[i]), E))
ser = z3.Concat(z3.StringVal(Q), inner, z3.StringVal(Q))
# deserialize: value[1:-1].replace("''", "'")  -- left-to-right non-overlapping scan, unrolled over 2N positions
body = z3.SubString(ser, 1, z3.Length(ser) - 2)
A2, B2 = "''", "'"
out = E; pos = z3.IntVal(0)
for k in range(2 * N):
    two = z3.SubString(body, pos, 2); one = z3.SubString(body, pos, 1)
    live = pos < z3.Length(body)
    hit = z3.And(live, two == z3.StringVal(A2))
    out = z3.Concat(out, z3.If(hit, z3.StringVal(B2), z3.If(live, one, E)))
    pos = z3.If(hit, pos + 2, z3.If(live, pos + 1, pos))
def q(name, *c):
    s.push(); s.add(*c); t = time.time(); r = s.check(); print(name, r, '%.1fs' % (time.time() - t))
    if r == z3.sat: print('   v =', s.model().eval(v))
    s.pop()
q('roundtrip (expect unsat)', out != v)
# t_STRING = '((\'\')|[^\'])*'
q1 = z3.Re("'")
tstring = z3.Concat(q1, z3.Star(z3.Union(z3.Re("''"), z3.Complement(z3.Union(q1, z3.Complement(z3.AllChar(z3.ReSort(z3.StringSort()))))))), q1) if False else None
notq = z3.Diff(z3.AllChar(z3.ReSort(z3.StringSort())), q1) if hasattr(z3, 'Diff') else None
tstring = z3.Concat(q1, z3.Star(z3.Union(z3.Re("''"), notq)), q1)
q('in token language (expect unsat)', z3.Not(z3.InRe(ser, tstring)))
for f in [',', ' ', '\n']:
    ext = z3.Concat(ser, z3.StringVal(f)); j = z3.Int('j')
    q('no longer match before %r (expect unsat)' % f, j > z3.Length(ser), j <= z3.Length(ext), z3.InRe(z3.SubString(ext, 0, j), tstring))
