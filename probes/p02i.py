# C02 inductive step prototype: arbitrary valid pre-state (link matrix + liveness) then ONE op
import xtuml
from xtuml import relate, unrelate, navigate_many as many
from crosshair.tracers import NoTracing
import p02

def nav(x, kind):
    return list(many(x).nav(kind, 'R1')())

def check(l00: bool, l01: bool, l10: bool, l11: bool, dead_a0: bool, dead_b0: bool, op: int, i: int, j: int, ida0: int, ida1: int) -> bool:
    """
    pre: 0 <= op < 7 and 0 <= i < 2 and 0 <= j < 2
    pre: not (l00 and l10) and not (l01 and l11)
    pre: ida0 != ida1 and 0 < ida0 < 2**128 and 0 < ida1 < 2**128
    post: _
    """
    with NoTracing():
        m = p02.mk()     # A --1C:MC-- B ; B.A_Id refers to A.Id ; each B has at most one A
    As = [m.new('A'), m.new('A')]; Bs = [m.new('B'), m.new('B')]
    As[0].Id = ida0; As[1].Id = ida1
    L = [[l00, l01], [l10, l11]]           # L[a][b]
    ass = m.associations[0]
    for a in range(2):
        for b in range(2):
            if L[a][b]:
                ass.source_link.connect(As[a], Bs[b], check=False)
                ass.target_link.connect(Bs[b], As[a], check=False)
    live_a = [not dead_a0, True]; live_b = [not dead_b0, True]
    # deleted instances are unlinked (that is what a successful delete leaves behind)
    if dead_a0:
        if l00 or l01: return True
        xtuml.delete(As[0])
    if dead_b0:
        if l00 or l10: return True
        xtuml.delete(Bs[0])
    # reference model
    R = {(a, b) for a in range(2) for b in range(2) if L[a][b]}
    exp_exc = None; R2 = set(R); la = list(live_a); lb = list(live_b)
    if op in (0, 1):     # relate(a,b) / relate(b,a)
        if (i, j) in R: pass
        elif any((x, j) in R for x in range(2)): exp_exc = xtuml.RelateException
        else: R2.add((i, j))
    elif op in (2, 3):
        if (i, j) in R: R2.discard((i, j))
        else: exp_exc = xtuml.UnrelateException
    elif op == 4:        # delete A[i]
        if not la[i]: exp_exc = xtuml.DeleteException
        else:
            la[i] = False; R2 = {(a, b) for (a, b) in R2 if a != i}
    elif op == 5:        # delete B[j]
        if not lb[j]: exp_exc = xtuml.DeleteException
        else:
            lb[j] = False; R2 = {(a, b) for (a, b) in R2 if b != j}
    else:                # unknown association
        exp_exc = xtuml.UnknownLinkException
    got_exc = None
    try:
        if op == 0: relate(As[i], Bs[j], 1)
        elif op == 1: relate(Bs[j], As[i], 1)
        elif op == 2: unrelate(As[i], Bs[j], 1)
        elif op == 3: unrelate(Bs[j], As[i], 1)
        elif op == 4: xtuml.delete(As[i])
        elif op == 5: xtuml.delete(Bs[j])
        else: relate(As[i], Bs[j], 99)
    except xtuml.MetaException as e:
        got_exc = type(e)
    if got_exc is not exp_exc: return False
    if exp_exc is not None: R2 = R; la = live_a; lb = live_b
    ids = [ida0, ida1]
    for a in range(2):
        got = nav(As[a], 'B'); exp = [Bs[b] for b in range(2) if (a, b) in R2]
        if len(got) != len(exp) or any(x not in exp for x in got): return False
    for b in range(2):
        got = nav(Bs[b], 'A'); exp = [As[a] for a in range(2) if (a, b) in R2]
        if len(got) != len(exp) or any(x not in exp for x in got): return False
        ref = Bs[b].A_Id
        if exp and ref != ids[As.index(exp[0])]: return False
        if not exp and ref is not None: return False
    if [x in m.select_many('A') for x in As] != la: return False
    if [x in m.select_many('B') for x in Bs] != lb: return False
    return True
