import xtuml
from xtuml import where_eq, order_by, reverse_order_by
from crosshair.tracers import NoTracing

def mk():
    m = xtuml.MetaModel(xtuml.IntegerGenerator())
    m.define_class('A', [('Id', 'unique_id'), ('x', 'integer'), ('y', 'integer')])
    return m

def q_order(x1: int, x2: int, x3: int, y1: int, y2: int, y3: int, k: int, rev: bool) -> bool:
    """
    post: _
    """
    m = mk()
    insts = [m.new('A', x=x, y=y) for x, y in ((x1,y1),(x2,y2),(x3,y3))]
    ob = reverse_order_by('x') if rev else order_by('x')
    got = list(m.select_many('A', where_eq(y=k), ob))
    exp = [i for i in insts if i.y == k]
    exp = sorted(exp, key=lambda i: i.x, reverse=rev)
    ok = len(got) == len(exp) and all(a is b for a, b in zip(got, exp))
    first = m.select_any('A', where_eq(y=k), ob)
    return ok and (first is (exp[0] if exp else None))
