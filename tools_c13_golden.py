"""Writes fixtures/oal_positions.expected.json (first/last token of every statement and expression
node of the C13 corpus in its canonical layout) and prints it for review.  Run from /verif:
  VERIF_SCRATCH=... .venv/bin/python tools_c13_golden.py [--write]"""
import json, os, sys
sys.path.insert(0, 'harness'); sys.path.insert(0, 'engine')
import c13_e2e as E
out = {}
for prog in E.PROGS:
    toks = E.tokens(prog)
    text, offs = E.assemble(toks, 0, 0, 0)
    got, why = E.spans(text, offs, toks)
    assert not why, (why, text)
    out[prog] = got
    print('=' * 20, text)
    for cls, i, j in got:
        print('   %-28s %s' % (cls, ' '.join(t.replace('\x00', ' ') for t, _ in toks[i:j + 1])))
if '--write' in sys.argv:
    json.dump(out, open('fixtures/oal_positions.expected.json', 'w'), indent=0)
    print('written', len(out))
