"""C12 (token level): the REAL table-driven parser of the loader (ply.yacc driver + the LALR tables generated from the
current grammar docstrings + every p_* action + p_error + ModelLoader.input) is executed symbolically on a token
STRING that is not text: the token kinds are solver-chosen from the loader's whole token alphabet (lazily, one
bisection per token actually requested by the driver, so that only viable prefixes are extended) and the token
TEXTS are solver-chosen from a small pool of members of the kind's language (numbers 1 / 7, names M / MC / x,
strings with and without content ...).  Unconstrained symbolic texts were tried first and dropped: the diagnostics
are built with the % operator, which realises a symbolic string (never exhausts), and a text outside the kind's
language would break the scanner's contract (a correct action may rely on a NUMBER being digits).
PLY's scanner is replaced by a stub that hands these tokens out (contract of the scanner: a token has a kind of
the alphabet, a text of that kind's language, a line and an offset).

Oracle (independent recursive-descent reading of the token string, written from the documented SQL subset):
  * the reference accepts  <=>  input() returns; then the statements appended to the loader are exactly the
    statements the reference reads (kind, names, attribute lists in order, value lists in order with a minus
    sign glued on, key lists, cardinalities, phrases without their quotes, position of the first token);
  * the reference rejects  <=>  input() raises ParsingException - nothing else - and the loader's accumulated
    statements are the very same objects with the same content as before the call.
"""
import xtuml
import xtuml.load as L
from ply import lex
from hlib import POST, PARAMS, cs, case, notrace, stub_str

stub_str()
LAST_DIFF = None

RESERVED = list(L.ModelLoader.reserved)
OTHER = [t for t in L.ModelLoader.tokens if t not in RESERVED]
SPELL = {w: w[0] + w[1:].lower() for w in RESERVED}          # the scanner keeps the spelling of the text: 'Create'
POOL = {'NUMBER': ['1', '7'], 'ID': ['M', 'MC', 'x'], 'STRING': ["'p q'", "''"], 'RELID': ['R1'], 'FRACTION': ['1.5'], 'GUID': ['"g"'],
        'CARDINALITY': ['1C'], 'COMMA': [','], 'LPAREN': ['('], 'RPAREN': [')'], 'MINUS': ['-'], 'SEMICOLON': [';']}
ALPHAS = {
    'full': RESERVED + OTHER,
    # identifiers represented by a plain name and three reserved words; all statement keywords in their roles
    'small': ['CREATE', 'TABLE', 'INSERT', 'INTO', 'VALUES', 'ROP', 'REF_ID', 'FROM', 'TO', 'PHRASE', 'UNIQUE',
              'INDEX', 'ON', 'TRUE', 'FALSE'] + OTHER,
    'values': ['TRUE', 'FALSE', 'COMMA', 'FRACTION', 'GUID', 'ID', 'MINUS', 'NUMBER', 'RPAREN', 'STRING', 'SEMICOLON', 'LPAREN'],
    'ids': ['ID', 'TRUE', 'COMMA', 'RPAREN', 'SEMICOLON', 'LPAREN', 'NUMBER', 'STRING'],
    'ends': ['PHRASE', 'TO', 'FROM', 'CARDINALITY', 'COMMA', 'ID', 'LPAREN', 'NUMBER', 'RPAREN', 'SEMICOLON', 'STRING', 'TRUE', 'RELID'],
}
ALPHA = ALPHAS[PARAMS.get('alpha', 'full')]
NA = len(ALPHA)
PREFIX = PARAMS.get('prefix', [])          # concrete tokens (kind, text) in front of the symbolic ones
SUFFIX = PARAMS.get('suffix', [])          # concrete tokens behind them
NMAX = PARAMS.get('n', 4)
IDENT = set(RESERVED) | {'ID'}

_PARSER_OWNER = None


def loader():
    global _PARSER_OWNER
    with notrace():
        if _PARSER_OWNER is None:
            _PARSER_OWNER = xtuml.ModelLoader()
        ld = _PARSER_OWNER
        ld.statements = []
    return ld


class Tokens(object):
    """lazy token string: prefix + n symbolic tokens + suffix"""
    def __init__(self, n, kinds, texts):
        self.n = n
        self.kinds = kinds
        self.texts = texts
        self.memo = {}

    def get(self, i):
        if i in self.memo:
            return self.memo[i]
        if i < len(PREFIX):
            r = tuple(PREFIX[i])
        elif i - len(PREFIX) < self.n:
            j = i - len(PREFIX)
            ty = ALPHA[cs(self.kinds[j], 0, NA - 1)]
            pool = POOL.get(ty)
            r = (ty, SPELL[ty] if ty in SPELL else pool[cs(self.texts[j], 0, len(pool) - 1)])
        elif i - len(PREFIX) - self.n < len(SUFFIX):
            r = tuple(SUFFIX[i - len(PREFIX) - self.n])
        else:
            r = None
        self.memo[i] = r
        return r


class StubLexer(object):
    def __init__(self, toks):
        self.toks = toks
        self.i = 0
        self.lineno = 1
        self.lexpos = 0
        self.lexdata = ''
        self.filename = None

    def input(self, data):
        pass

    def token(self):
        r = self.toks.get(self.i)
        if r is None:
            return None
        t = lex.LexToken()
        t.type, t.value = r
        t.lineno = 10 + self.i
        t.lexpos = 100 + self.i
        t.lexer = self
        self.i += 1
        return t


class Reject(Exception):
    pass


class Ref(object):
    """reference reading of a token string"""
    def __init__(self, toks):
        self.toks = toks
        self.i = 0

    def peek(self):
        r = self.toks.get(self.i)
        return r[0] if r is not None else None

    def take(self, *kinds):
        r = self.toks.get(self.i)
        if r is None or r[0] not in kinds:
            raise Reject()
        self.i += 1
        return r[1]

    def ident(self):
        r = self.toks.get(self.i)
        if r is None or r[0] not in IDENT:
            raise Reject()
        self.i += 1
        return r[1]

    def seq(self, item, starts):
        # sequence : | item | sequence COMMA item      (so the first item may be missing: "( , a )")
        out = []
        if self.peek() in starts:
            out.append(item())
        while self.peek() == 'COMMA':
            self.i += 1
            out.append(item())
        return out

    def value(self):
        k = self.peek()
        if k == 'MINUS':
            self.i += 1
            return '-' + self.take('FRACTION', 'NUMBER')
        return self.take('FRACTION', 'NUMBER', 'STRING', 'GUID', 'TRUE', 'FALSE')

    def attribute(self):
        a = self.ident()
        return (a, self.ident())

    def end(self):
        k = self.peek()
        c = self.take('NUMBER', 'ID', 'CARDINALITY')
        if k == 'NUMBER' and c != '1':
            raise Reject()
        if k == 'ID' and c != 'M' and c != 'MC':
            raise Reject()
        kind = self.ident()
        self.take('LPAREN')
        keys = self.seq(self.ident, IDENT)
        self.take('RPAREN')
        phrase = ''
        if self.peek() == 'PHRASE':
            self.i += 1
            s = self.take('STRING')
            phrase = s[1:len(s) - 1]
        return (kind, c, keys, phrase)

    def statement(self):
        first = self.i
        k = self.take('CREATE', 'INSERT')
        if self.toks.get(first)[0] == 'INSERT':
            self.take('INTO')
            kind = self.ident()
            names = None
            if self.peek() == 'LPAREN':
                self.i += 1
                names = self.seq(self.ident, IDENT)
                self.take('RPAREN')
            self.take('VALUES')
            self.take('LPAREN')
            values = self.seq(self.value, ('FRACTION', 'NUMBER', 'STRING', 'GUID', 'TRUE', 'FALSE', 'MINUS'))
            self.take('RPAREN')
            st = ('CreateInstanceStmt', dict(kind=kind, values=values, names=names))
        else:
            k2 = self.peek()
            self.take('TABLE', 'ROP', 'UNIQUE')
            if k2 == 'TABLE':
                kind = self.ident()
                self.take('LPAREN')
                attrs = self.seq(self.attribute, IDENT)
                self.take('RPAREN')
                st = ('CreateClassStmt', dict(kind=kind, attributes=attrs))
            elif k2 == 'ROP':
                self.take('REF_ID')
                rel = self.take('RELID')
                self.take('FROM')
                a = self.end()
                self.take('TO')
                b = self.end()
                st = ('CreateAssociationStmt', dict(rel_id=rel, source_kind=a[0], source_cardinality=a[1], source_keys=a[2], source_phrase=a[3],
                                                     target_kind=b[0], target_cardinality=b[1], target_keys=b[2], target_phrase=b[3]))
            else:
                self.take('INDEX')
                name = self.ident()
                self.take('ON')
                kind = self.ident()
                self.take('LPAREN')
                attrs = self.seq(self.ident, IDENT)
                self.take('RPAREN')
                st = ('CreateUniqueStmt', dict(kind=kind, name=name, attributes=attrs))
        self.take('SEMICOLON')
        st[1].update(offset=100 + first, lineno=10 + first, filename='<tok>')
        return st

    def unit(self):
        out = []
        while self.peek() is not None:
            out.append(self.statement())
        return out


def same(a, b):
    """structural equality of (possibly symbolic) values without hashing"""
    if isinstance(a, (list, tuple)) and isinstance(b, (list, tuple)):
        return len(a) == len(b) and all(same(x, y) for x, y in zip(a, b))
    if a is None or b is None:
        return a is None and b is None
    if isinstance(a, (list, tuple)) or isinstance(b, (list, tuple)):
        return False
    return a == b


def check_tokens(n: int, k0: int, k1: int, k2: int, k3: int, k4: int, k5: int, k6: int,
                 v0: int, v1: int, v2: int, v3: int, v4: int, v5: int, v6: int) -> bool:
    """
    pre: 0 <= n <= NMAX
    pre: 0 <= v0 <= 2 and 0 <= v1 <= 2 and 0 <= v2 <= 2 and 0 <= v3 <= 2 and 0 <= v4 <= 2 and 0 <= v5 <= 2 and 0 <= v6 <= 2
    pre: 0 <= k0 < NA and 0 <= k1 < NA and 0 <= k2 < NA and 0 <= k3 < NA and 0 <= k4 < NA and 0 <= k5 < NA and 0 <= k6 < NA
    post: POST(_)
    """
    global LAST_DIFF
    toks = Tokens(n, [k0, k1, k2, k3, k4, k5, k6], [v0, v1, v2, v3, v4, v5, v6])
    ld = loader()
    with notrace():
        old = L.CreateClassStmt('Old', [('a', 'INTEGER')])
    ld.statements.append(old)
    stub = StubLexer(toks)
    saved = L.lex.lex
    L.lex.lex = lambda **kw: stub
    outcome = None
    try:
        try:
            ld.input('', name='<tok>')
            outcome = 'accepted'
        except L.ParsingException:
            outcome = 'rejected'
        except Exception as e:
            with notrace():
                LAST_DIFF = ('undocumented exception from input()', type(e).__name__, str(e)[:100], [toks.memo[i] for i in sorted(toks.memo)])
            case('tok', [toks.memo[i][0] if toks.memo[i] else None for i in sorted(toks.memo)])
            return False
    finally:
        L.lex.lex = saved
    try:
        expected = Ref(toks).unit()
    except Reject:
        expected = None
    sig = [toks.memo[i][0] if toks.memo[i] else None for i in sorted(toks.memo)]
    case('tok', sig, outcome)
    if expected is None:
        if outcome != 'rejected':
            LAST_DIFF = ('a token string outside the documented language was accepted', sig); return False
        if len(ld.statements) != 1 or ld.statements[0] is not old or old.kind != 'Old' or not same(old.attributes, [('a', 'INTEGER')]):
            LAST_DIFF = ('rejected input changed the accumulated statements', sig); return False
        return True
    if outcome != 'accepted':
        LAST_DIFF = ('a token string of the documented language was rejected', sig); return False
    got = ld.statements[1:]
    if ld.statements[0] is not old or len(got) != len(expected):
        LAST_DIFF = ('number of statements appended', sig, len(got), len(expected)); return False
    for g, (cls, fields) in zip(got, expected):
        if type(g).__name__ != cls:
            LAST_DIFF = ('statement kind', sig, type(g).__name__, cls); return False
        d = vars(g)
        if len(d) != len(fields):
            LAST_DIFF = ('statement fields', sig, sorted(d), sorted(fields)); return False
        for f, v in fields.items():
            if f not in d or not same(d[f], v):
                with notrace():
                    LAST_DIFF = ('statement field differs from the reference reading', sig, cls, f);
                return False
    return True
