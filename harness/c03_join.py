"""C03 (join): a loaded metamodel links exactly the key-matching pairs.
Key values come from small pools (they are hashed by the loader's index join) and are case-split;
the model text is realised and parsed outside the tracer; build_metamodel (populate_*) runs traced.
Oracle: nested-loop join with the documented null rule."""
import itertools
import xtuml
from hlib import POST, PARAMS, cs, case, known, notrace, stub_str
from modelsig import link_sig

stub_str()
LAST_DIFF = None
SCHEMA = PARAMS.get('schema', 'uid')
NB = PARAMS.get('nb', 2)
NA = 2
POOLS = {
    'UNIQUE_ID': [None, 0, 1, 2],
    'STRING': [None, '', 'a', 'b'],
    'INTEGER': [None, 0, 1],
    'BOOLEAN': [None, False, True],
    'REAL': [None, 0.0, 1.5],
}
# values that are different but have the same Python hash (hash(-1) == hash(-2); hash(n) is n mod 2**61-1; the hash of a
# float equals that of the integer it represents): a join that compares hashes instead of values links the wrong rows
COLLIDING = {
    'int_coll': [None, -1, -2, 0, 2 ** 61 - 1],
    'uid_coll': [None, 1, 2 ** 61, 2 ** 62 - 1],
    'real_coll': [None, -1.0, -2.0, 0.0],
    'str_coll': [None, 'a', 'A', ' a'],
}
KEYS = {
    'uid': [('Id', 'UNIQUE_ID')], 'str': [('Name', 'STRING')], 'int': [('N', 'INTEGER')],
    'bool': [('F', 'BOOLEAN')], 'real': [('X', 'REAL')],
    'uid_str': [('Id', 'UNIQUE_ID'), ('Name', 'STRING')],
    'int_uid': [('N', 'INTEGER'), ('Id', 'UNIQUE_ID')],
    'int_int': [('N', 'INTEGER'), ('M', 'INTEGER')],
    'shared': [('Id', 'UNIQUE_ID')],
    'int_coll': [('N', 'INTEGER')], 'uid_coll': [('Id', 'UNIQUE_ID')], 'real_coll': [('X', 'REAL')], 'str_coll': [('Name', 'STRING')],
}[SCHEMA]
COMPOSITE_POOLS = {'UNIQUE_ID': [0, 1, 2], 'STRING': ['', 'a'], 'INTEGER': [0, 1]}


def key_pool():
    if SCHEMA == 'int_int':
        return [(1, 1), (1, 2), (2, 1), (2, 2)]
    if SCHEMA == 'shared':
        return [(0,), (1,), (2,)]
    if SCHEMA in COLLIDING:
        return [(v,) for v in COLLIDING[SCHEMA]]
    if len(KEYS) == 1:
        return [(v,) for v in POOLS[KEYS[0][1]]]
    return list(itertools.product(*[COMPOSITE_POOLS[t] for _, t in KEYS]))


KP = key_pool()
NK = len(KP)
NROWS = NA + NB + (NA if SCHEMA == 'shared' else 0)
SHARD = PARAMS.get('shard', 0)
NSHARDS = PARAMS.get('nshards', 1)
CASES = list(range(NK ** NROWS))[SHARD::NSHARDS]
NCASES = len(CASES)


def is_null(v, ty):
    return v is None or (ty == 'UNIQUE_ID' and v == 0) or (ty == 'STRING' and v == '')


def tyname(t):
    # the declared type names may be written in any letter case (PARAMS typecase: upper | lower | mixed)
    tc = PARAMS.get('typecase', 'upper')
    return t if tc == 'upper' else t.lower() if tc == 'lower' else ''.join(c.lower() if i % 2 else c.upper() for i, c in enumerate(t))


def schema_text():
    a_attrs = ', '.join('%s %s' % (n, tyname(t)) for n, t in KEYS)
    b_attrs = ', '.join('A_%s %s' % (n, tyname(t)) for n, t in KEYS)
    s = 'CREATE TABLE A (%s, Tag INTEGER);\nCREATE TABLE B (Tag INTEGER, %s);\n' % (a_attrs, b_attrs)
    s += 'CREATE ROP REF_ID R1 FROM MC B (%s) TO 1C A (%s);\n' % (
        ', '.join('A_' + n for n, _ in KEYS), ', '.join(n for n, _ in KEYS))
    if SCHEMA == 'shared':
        s += 'CREATE TABLE C (Id UNIQUE_ID, Tag INTEGER);\n'
        s += 'CREATE ROP REF_ID R2 FROM MC B (A_Id) TO 1C C (Id);\n'
    return s


def row_text(kind, prefix, tag, key):
    names = ['Tag']
    vals = ['%d' % tag]
    for (n, t), v in zip(KEYS if kind != 'C' else [('Id', 'UNIQUE_ID')], key):
        if v is None:
            continue          # unset: attribute omitted from the named insert
        names.append(prefix + n)
        vals.append(xtuml.serialize_value(v, t))
    return 'INSERT INTO %s (%s) VALUES (%s);\n' % (kind, ', '.join(names), ', '.join(vals))


LOADER = None


def check(ci: int) -> bool:
    """
    pre: 0 <= ci < NCASES
    post: POST(_)
    """
    global LAST_DIFF, LOADER
    ci = CASES[cs(ci, 0, NCASES - 1)]
    keys = []
    c = ci
    for _ in range(NROWS):
        keys.append(KP[c % NK]); c //= NK
    a_keys, b_keys, c_keys = keys[:NA], keys[NA:NA + NB], keys[NA + NB:]
    with notrace():
        text = schema_text()
        # rows interleaved: referring rows before and after the referred ones
        text += row_text('B', 'A_', 0, b_keys[0])
        for n, k in enumerate(a_keys):
            text += row_text('A', '', n, k)
        for n, k in enumerate(c_keys):
            text += row_text('C', '', n, k)
        for n, k in enumerate(b_keys[1:]):
            text += row_text('B', 'A_', n + 1, k)
        if LOADER is None:
            LOADER = xtuml.ModelLoader()
        LOADER.statements = []
        LOADER.input(text)
    m = LOADER.build_metamodel()
    case(SCHEMA, a_keys, b_keys, c_keys)
    with notrace():
        got = link_sig(m)
        exp = set()
        tys = [t for _, t in KEYS]
        for bi, bk in enumerate(b_keys):
            if any(is_null(v, t) for v, t in zip(bk, tys)):
                continue
            for ai, ak in enumerate(a_keys):
                if all(x == y and type(x) == type(y) for x, y in zip(bk, ak)):
                    exp.add(('R1', '', 'B', bi, 'A', ai)); exp.add(('R1', '', 'A', ai, 'B', bi))
            for cix, ck in enumerate(c_keys):
                if ck[0] == bk[0]:
                    exp.add(('R2', '', 'B', bi, 'C', cix)); exp.add(('R2', '', 'C', cix, 'B', bi))
        # B rows were written first/last: map pool order back to row numbers through Tag
        bpool = [x.Tag for x in m.select_many('B')]
        apool = [x.Tag for x in m.select_many('A')]
        cpool = [x.Tag for x in m.select_many('C')] if SCHEMA == 'shared' else []
        pm = {'A': apool, 'B': bpool, 'C': cpool}
        got = {(r, p, k1, pm[k1][i1], k2, pm[k2][i2]) for (r, p, k1, i1, k2, i2) in got}
    if got != exp:
        LAST_DIFF = ('links', sorted(got ^ exp), a_keys, b_keys, c_keys); return False
    # referential reads agree with the linked instance; stripped from the instance dict
    for b in m.select_many('B'):
        partners = list(xtuml.navigate_many(b).A[1]())
        for n, _t in KEYS:
            v = getattr(b, 'A_' + n)
            if ('A_' + n) in b.__dict__:
                LAST_DIFF = ('referential value left in instance dict',); return False
            if partners:
                if v != getattr(partners[0], n):
                    LAST_DIFF = ('referential read', n); return False
            elif SCHEMA != 'shared' and v is not None:
                LAST_DIFF = ('referential read of unlinked instance', n, v); return False
    return True


# ---- two associations into the SAME referred class through DIFFERENT identifiers, with identically
# named referential attributes on the referring classes (the loader caches one index per referred
# class and key set)
TWO = [(a1, c1, a2, c2, b, c, o) for a1 in (1, 2) for c1 in (1, 2) for a2 in (1, 2) for c2 in (1, 2)
       for b in (0, 1, 2) for c in (0, 1, 2) for o in (0, 1)]
NTWO = len(TWO)


def check_two_ids(ci: int) -> bool:
    """
    pre: 0 <= ci < NTWO
    post: POST(_)
    """
    global LAST_DIFF, LOADER
    a1, c1, a2, c2, bref, cref, order = TWO[cs(ci, 0, NTWO - 1)]
    with notrace():
        rops = ['CREATE ROP REF_ID R1 FROM MC B (Ref) TO 1C A (Id);\n', 'CREATE ROP REF_ID R2 FROM MC C (Ref) TO 1C A (Code);\n']
        text = ('CREATE TABLE A (Id UNIQUE_ID, Code UNIQUE_ID);\nCREATE TABLE B (Ref UNIQUE_ID);\nCREATE TABLE C (Ref UNIQUE_ID);\n'
                + ''.join(rops[::-1] if order else rops) +
                'INSERT INTO A VALUES (%d, %d);\nINSERT INTO A VALUES (%d, %d);\nINSERT INTO B VALUES (%d);\nINSERT INTO C VALUES (%d);\n'
                % (a1, c1, a2, c2, bref, cref))
        if LOADER is None:
            LOADER = xtuml.ModelLoader()
        LOADER.statements = []
        LOADER.input(text)
    m = LOADER.build_metamodel()
    case('two_ids', a1, c1, a2, c2, bref, cref, order)
    with notrace():
        got = link_sig(m)
        exp = set()
        for ai, (i, c) in enumerate(((a1, c1), (a2, c2))):
            if bref != 0 and bref == i:
                exp.add(('R1', '', 'B', 0, 'A', ai)); exp.add(('R1', '', 'A', ai, 'B', 0))
            if cref != 0 and cref == c:
                exp.add(('R2', '', 'C', 0, 'A', ai)); exp.add(('R2', '', 'A', ai, 'C', 0))
    if got != exp:
        LAST_DIFF = ('links', sorted(got ^ exp), (a1, c1, a2, c2, bref, cref, order)); return False
    return True


# ---- special schemas: reflexive association with phrases (incl. self-reference), non-reflexive association
# with different phrases on its ends, association whose key attributes are spelled in another letter case
# than the class declares.  Loader vs nested-loop join, and API route (new with referential values,
# referred rows first) vs loader.
SPECIAL = PARAMS.get('special', 'refl')
SP_CASES = list(itertools.product(range(4), repeat=3))
NSP = len(SP_CASES)


def sp_text(prev):
    if SPECIAL == 'refl':
        s = ("CREATE TABLE C (Id UNIQUE_ID, Prev_Id UNIQUE_ID, Tag INTEGER);\n"
             "CREATE ROP REF_ID R2 FROM 1C C (Prev_Id) PHRASE 'precedes' TO 1C C (Id) PHRASE 'succeeds';\n")
        for n, p in enumerate(prev):
            s += 'INSERT INTO C VALUES (%d, %d, %d);\n' % (n + 1, p, n)
        return s
    rop = {'phr': "CREATE ROP REF_ID R1 FROM MC B (A_Id) PHRASE 'is held by' TO 1C A (Id) PHRASE 'holds';\n",
           'case': "CREATE ROP REF_ID R1 FROM MC B (a_id) TO 1C A (ID);\n"}[SPECIAL]
    s = "CREATE TABLE A (Id UNIQUE_ID, Tag INTEGER);\nCREATE TABLE B (Tag INTEGER, A_Id UNIQUE_ID);\n" + rop
    for n in range(3):
        s += 'INSERT INTO A VALUES (%d, %d);\n' % (n + 1, n)
    for n, p in enumerate(prev):
        s += 'INSERT INTO B VALUES (%d, %d);\n' % (n, p)
    return s


def sp_links(m):
    """(referring tag, referred tag) pairs, read by navigating both directions"""
    out = set()
    if SPECIAL == 'refl':
        for c in m.select_many('C'):
            for d in xtuml.navigate_many(c).C[2, 'precedes']():
                out.add(('fwd', c.Tag, d.Tag))
            for d in xtuml.navigate_many(c).C[2, 'succeeds']():
                out.add(('bwd', d.Tag, c.Tag))
    else:
        ph1, ph2 = ('is held by', 'holds') if SPECIAL == 'phr' else ('', '')
        for b in m.select_many('B'):
            for a in xtuml.navigate_many(b).A[1, ph1]():
                out.add(('fwd', b.Tag, a.Tag))
        for a in m.select_many('A'):
            for b in xtuml.navigate_many(a).B[1, ph2]():
                out.add(('bwd', b.Tag, a.Tag))
    return out


def check_special(ci: int) -> bool:
    """
    pre: 0 <= ci < NSP
    post: POST(_)
    """
    global LAST_DIFF, LOADER
    prev = SP_CASES[cs(ci, 0, NSP - 1)]
    with notrace():
        if LOADER is None:
            LOADER = xtuml.ModelLoader()
        LOADER.statements = []
        LOADER.input(sp_text(prev))
    m = LOADER.build_metamodel()
    case('special', SPECIAL, prev)
    exp = set()
    for n, p in enumerate(prev):
        if 1 <= p <= 3:
            exp.add(('fwd', n, p - 1)); exp.add(('bwd', n, p - 1))
    with notrace():
        got = sp_links(m)
    if got != exp:
        LAST_DIFF = ('loaded links differ from the key join', SPECIAL, prev, sorted(got ^ exp)); return False
    # API route: same rows through new(), referred rows first (reflexive: only references to earlier rows or none)
    if SPECIAL == 'refl' and (any(p > n for n, p in enumerate(prev)) or
                              any(prev.count(p) > 1 for p in prev if 1 <= p <= 3)):
        return True      # API route only: references to earlier rows, within the 1:1 multiplicity (new() checks it, the loader does not)
    with notrace():
        l2 = xtuml.ModelLoader()
        l2.input(''.join(ln + '\n' for ln in sp_text(prev).split('\n') if ln.startswith('CREATE')))
        m2 = l2.build_metamodel()
    try:
        if SPECIAL == 'refl':
            for n, p in enumerate(prev):
                m2.new('C', Id=n + 1, Prev_Id=p, Tag=n)
        else:
            for n in range(3):
                m2.new('A', Id=n + 1, Tag=n)
            for n, p in enumerate(prev):
                m2.new('B', Tag=n, A_Id=p)
    except xtuml.UnknownLinkException:
        if SPECIAL == 'phr' and any(1 <= p <= 3 for p in prev) and known('C03/api-phrased-unknownlink'):
            return None
        raise
    with notrace():
        got2 = sp_links(m2)
    if got2 != exp:
        if SPECIAL == 'refl' and got2 == {(d, b, a) for (d, a, b) in exp} and known('C03/api-reflexive-direction'):
            return None
        LAST_DIFF = ('links of rows created through new() differ from the loaded ones', SPECIAL, prev, sorted(got2 ^ exp)); return False
    return True
