from engine_api import Cond

PROPERTY = 'C11'
LEVEL = 'other'
ASSUMPTIONS = [
    'a null identifying value is None, or 0 in an attribute of type unique_id (any spelling of the type name); empty strings are outside the claim',
    'repeated identifiers are counted per (instance, identifier) pair',
    'association states: unconstrained link matrices over 2x2 instances (3x3 thorough) installed with connect(check=False)',
    'formatting stubs: pretty_from_link / pretty_to_link / pretty_unique_identifier (log message builders) return constants; logging disabled',
    'CLI: model text is realised and parsed by the real tool outside the tracer; logging disabled during the call',
]


def conditions(tier, seed):
    t = 300 if tier == 'quick' else 3000
    out = []
    for ut in ('UNIQUE_ID', 'unique_id'):
        out.append(Cond('assoc_%s' % ut, 'c11_cons.py', dict(uid_type=ut, n=2), func='check_assoc', timeout=t,
                        bound='two associations, all 16 cardinality pairs on each (varied one association at a time), every 2x2 link matrix on the first x 3 matrices on the second, reflexive and not',
                        case_split=['ci', 'mat', 'mat2', 'refl'], twin=(ut == 'UNIQUE_ID')))
        for sh in range(4):
            out.append(Cond('ident_%s_s%d' % (ut, sh), 'c11_cons.py', dict(uid_type=ut, shard=sh, nshards=4), func='check_ident', timeout=t,
                            bound='3 instances; identifier on Id (values None,0,1,2), on (n,s) (None,0,1 x None,a,b), or both (2 varying instances, 4 (n,s) values); shard %d/4' % sh,
                            case_split=['ii (index into the table of identifier-value assignments)'], twin=(ut == 'UNIQUE_ID' and sh == 0)))
    if tier == 'thorough':
        for sh in range(31):
            out.append(Cond('assoc_3x3_s%d' % sh, 'c11_cons.py', dict(uid_type='UNIQUE_ID', n=3, shard=sh, nshards=31), func='check_assoc', timeout=t,
                            bound='as assoc, every 3x3 link matrix, cardinality combination %d of 31' % sh, case_split=['mat', 'mat2', 'refl'], twin=False))
    out.append(Cond('ref_ident', 'c11_cons.py', {}, func='check_ref_ident', timeout=t,
                    bound='identifier that is also referential: two instances related to one of two referred instances or to none, conditional and unconditional referred end',
                    case_split=['x', 'y', 'cond']))
    out.append(Cond('subtype', 'c11_cons.py', {}, func='check_subtype', timeout=t,
                    bound='3 supertype instances, two subtypes each related to none or one of them', case_split=['x', 'y']))
    out.append(Cond('cli', 'c11_cons.py', {}, func='check_cli', timeout=t,
                    bound='xtuml.consistency_check.main on generated model text: 16 cardinality pairs x duplicate/unique ids x null/matching/dangling references x 9 option sets',
                    case_split=['ci', 'a1', 'b0', 'b1', 'oi'], realised=['model text (written to a scratch file)']))
    return out
