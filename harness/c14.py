from engine_api import Cond

PROPERTY = 'C14'
LEVEL = 'other'
ASSUMPTIONS = [
    'base models: fixtures/Simple_Model.xtuml (5 classes; linked reflexive association with phrases, subtype association, two simple associations; UDT and enumeration types, one component) and fixtures/interp_model.xtuml (3 classes, linked reflexive and simple association, a derived attribute, enumeration, no component), each with the ooaofooa globals',
    'metamorphic oracle: the component built from the edited model must equal the baseline signature transformed by the same edit (written from the property statement, independent of mk_class / mk_*_association)',
    'Mult / Cond are symbolic integers in 0..1, phrases symbolic strings of length <= 3; edit sites are case-split',
    'one edit per run (edit scripts of length 1)',
    'synthesised diagrams: absolute oracle = signature computed directly from the abstract class diagram (harness/c14_synth.py); formalised simple, subtype/supertype (three subtypes with differently named referentials) and linked associations (association class between two classes with a compound key; reflexive with phrases) are synthesised',
]


def conditions(tier, seed):
    t = 600 if tier == 'quick' else 3000
    spec = [('mult_cond', 'check_mult_cond', 'Mult and Cond (symbolic) of every R_FORM / R_PART / R_AONE / R_AOTH', ['mu', 'co'], ['si']),
            ('phrase', 'check_phrase', 'Txt_Phrs (symbolic strings) of both ends of the reflexive linked association', ['p1', 'p2'], []),
            ('rename', 'check_rename', 'rename every attribute', [], ['si']),
            ('retype', 'check_retype', 'retype every base attribute to each of 10 data types (core, user-defined, enumeration, user types stacked 2 and 3 deep on a core type and on the enumeration); referential attributes follow', [], ['bi', 'ti']),
            ('reorder', 'check_reorder', 'swap the first two attributes in the R103 chain of every class with two attributes', [], ['si']),
            ('identifier', 'check_identifier', 'add every attribute to the second identifier of its class', [], ['si']),
            ('nested', 'check_nested', 'every class / association moved into a package of a component nested in the component: mk_component(component) and the whole model are unchanged', [], ['mi', 'how']),
            ('variants', 'check_variants', 'whole model / named component / build_component / derived attributes / 3 row orders of the model text / SQL schema round trip', [], ['which'])]
    out = []
    for fx in ('Simple_Model', 'interp_model'):
        for n, f, b, s, c in spec:
            if n == 'nested' and fx != 'Simple_Model':
                continue      # the second fixture has no component
            out.append(Cond('%s_%s' % (fx, n), 'c14_comp.py', dict(edit=n, fixture=fx), func=f, timeout=t,
                            bound='%s: %s' % (fx, b), symbolic=s, case_split=c, realised=['model text (PLY, outside the tracer)']))
    if tier == 'thorough':
        # edit scripts of length two: the edit, then any attribute renamed, then the extraction
        for n, f, b in (('mult_cond', 'check_mult_cond2', 'Mult / Cond of every association end'), ('retype', 'check_retype2', 'retype of every base attribute to 10 types'),
                        ('reorder', 'check_reorder2', 'swap in the R103 chain'), ('identifier', 'check_identifier2', 'attribute added to the second identifier')):
            out.append(Cond('Simple_Model_%s_then_rename' % n, 'c14_comp.py', dict(edit=n + '+rename', fixture='Simple_Model'), func=f, timeout=t,
                            bound='Simple_Model: %s, THEN any attribute renamed (edit scripts of length 2)' % b,
                            case_split=['first edit site', 'si2'], realised=['model text (PLY, outside the tracer)'], twin=False))
    for sh in range(8):
        out.append(Cond('synth_s%d' % sh, 'c14_synth.py', dict(shard=sh, nshards=8), timeout=t,
                        bound='6 synthesised class diagrams (subtype hierarchy, association classes, compound identifiers whose referential names sort differently from the identifying names, reflexive association with phrases, several core types, two identifiers) x 16 Mult/Cond combinations x 4 row orders (shard %d/8)' % sh,
                        case_split=['ci (diagram, multiplicities, row order)'], realised=['model text'], twin=(sh == 0)))
    return out
