"""python regex (re._parser) -> z3 regex; \\d and \\w as their ASCII ranges (stated approximation)"""
import z3
import re._parser as sre
import re._constants as sc

RS = z3.ReSort(z3.StringSort())
ANY = z3.AllChar(RS)


def rng(a, b):
    return z3.Range(chr(a), chr(b))


def cat_re(name):
    if name == sc.CATEGORY_DIGIT:
        return rng(48, 57)
    if name == sc.CATEGORY_WORD:
        return z3.Union(rng(48, 57), rng(65, 90), rng(97, 122), z3.Re('_'))
    if name == sc.CATEGORY_SPACE:
        return z3.Union(*[z3.Re(c) for c in ' \t\n\r\x0b\x0c'])
    raise ValueError('category %s' % name)


def conv(items):
    parts = []
    for op, av in items:
        if op == sc.LITERAL:
            parts.append(z3.Re(chr(av)))
        elif op == sc.NOT_LITERAL:
            parts.append(z3.Diff(ANY, z3.Re(chr(av))))
        elif op == sc.ANY:
            parts.append(z3.Diff(ANY, z3.Re('\n')))
        elif op == sc.IN:
            neg = False
            alts = []
            for o2, a2 in av:
                if o2 == sc.NEGATE:
                    neg = True
                elif o2 == sc.LITERAL:
                    alts.append(z3.Re(chr(a2)))
                elif o2 == sc.RANGE:
                    alts.append(rng(a2[0], a2[1]))
                elif o2 == sc.CATEGORY:
                    alts.append(cat_re(a2))
                else:
                    raise ValueError('class item %s' % o2)
            u = alts[0] if len(alts) == 1 else z3.Union(*alts)
            parts.append(z3.Diff(ANY, u) if neg else u)
        elif op in (sc.MAX_REPEAT, sc.MIN_REPEAT):
            lo, hi, sub = av
            r = conv(sub)
            if hi == sc.MAXREPEAT:
                parts.append(z3.Star(r) if lo == 0 else z3.Concat(*([r] * lo + [z3.Star(r)])) if lo > 1 else z3.Plus(r))
            else:
                parts.append(z3.Loop(r, lo, hi))
        elif op == sc.SUBPATTERN:
            parts.append(conv(av[3]))
        elif op == sc.BRANCH:
            parts.append(z3.Union(*[conv(b) for b in av[1]]))
        elif op == sc.CATEGORY:
            parts.append(cat_re(av))
        elif op in (sc.ASSERT, sc.ASSERT_NOT):
            # look-ahead consumes nothing: the language of the token TEXT is over-approximated by dropping it
            parts.append(z3.Re(''))
        else:
            raise ValueError('regex op %s' % op)
    if not parts:
        return z3.Re('')
    return parts[0] if len(parts) == 1 else z3.Concat(*parts)


def to_z3(pattern):
    return conv(sre.parse(pattern))


