"""oalgen: a mini-AST for OAL bodies with two consumers that share nothing with pyxtuml:
   to_text(prog)            -> OAL text (fully parenthesised expressions, one statement per line)
   RefEval(pop, params).run -> reference evaluation over a plain relational model

Schema of the interpreted programs (DESIGN.md appendix A):
   A(Id, n integer, s string, b boolean)      B(Id, A_Id, v integer)      C(Id, Prev_Id, k integer)
   L(A_Id, B_Id, w integer)
   R1: B MC --- 1C A          R2: C 1C 'precedes'/'succeeds' 1C C (reflexive)
   R3: A MC ---(L)--- MC B    (association class)

Expressions : ('int', 5) ('bool', True) ('str', 'x') ('var', 'x') ('param', 'p') ('attr', e, 'n')
              ('selected',) ('self',) ('un', op, e) ('bin', op, l, r) ('call', kind, target, name, [(pname, e)..])
Statements  : ('assign', target, e)  target = ('var', x) | ('attr', e, name)
              ('if', c, block, [(c, block)..], else_block|None)  ('while', c, block)
              ('foreach', v, setvar, block) ('break',) ('continue',) ('return', e|None) ('stop',)
              ('create', v, K) ('create_nv', K) ('delete', v)
              ('relate', a, b, rel, phrase|None) ('unrelate', a, b, rel, phrase|None)
              ('relate_using', a, b, l, rel) ('unrelate_using', a, b, l, rel)
              ('select', card, v, K, where|None)          card in any|many
              ('select_rel', card, v, start, [(K, rel, phrase|None)..], where|None)   card in one|any|many
              ('callstmt', callexpr[, 'transform' | 'bridge'])
"""

ATTRS = {'A': ['n', 's', 'b'], 'B': ['v'], 'C': ['k'], 'L': ['w']}
DEFAULTS = {'n': 0, 's': '', 'b': False, 'v': 0, 'k': 0, 'w': 0}


# ------------------------------------------------------------------------------------------------
# printer

def kw(word, style):
    if style == 'lower':
        return word
    if style == 'upper':
        return word.upper()
    if style == 'cap':
        return word.capitalize()
    if style == 'mixed':
        return ''.join(c.upper() if i % 2 else c.lower() for i, c in enumerate(word))
    return word


def expr_text(e, st='lower'):
    t = e[0]
    if t == 'int':
        return str(e[1]) if e[1] >= 0 else '(0 - %d)' % -e[1]
    if t == 'bool':
        return kw('true' if e[1] else 'false', st)
    if t == 'str':
        return '"%s"' % e[1]
    if t == 'var':
        return e[1]
    if t == 'param':
        return '%s.%s' % (kw('param', st), e[1])
    if t == 'attr':
        return '%s.%s' % (expr_text(e[1], st), e[2])
    if t == 'selected':
        return kw('selected', st)
    if t == 'self':
        return kw('self', st)
    if t == 'un':
        return '(%s %s)' % (kw(e[1], st) if e[1].isalpha() or '_' in e[1] else e[1], expr_text(e[2], st))
    if t == 'bin':
        op = kw(e[1], st) if e[1] in ('and', 'or') else e[1]
        return '(%s %s %s)' % (expr_text(e[2], st), op, expr_text(e[3], st))
    if t == 'call':
        return call_text(e, st)
    raise ValueError(e)


def call_text(e, st='lower'):
    _, kind, target, name, args = e
    a = ', '.join('%s: %s' % (n, expr_text(x, st)) for n, x in args)
    if kind == 'function':
        return '::%s(%s)' % (name, a)
    if kind in ('bridge', 'class'):
        return '%s::%s(%s)' % (target, name, a)
    if kind == 'instance':
        return '%s.%s(%s)' % (expr_text(target, st), name, a)
    raise ValueError(e)


def nav_text(steps):
    out = ''
    for (k, rel, phrase) in steps:
        out += "->%s[R%d%s]" % (k, rel, (".'%s'" % phrase) if phrase else '')
    return out


def block_text(block, ind, st):
    return ''.join(stmt_text(s, ind, st) for s in block)


def stmt_text(s, ind=0, st='lower'):
    p = '  ' * ind
    t = s[0]
    K = lambda w: kw(w, st)
    if t == 'assign':
        return '%s%s %s = %s;\n' % (p, K('assign'), expr_text(s[1], st), expr_text(s[2], st))
    if t == 'if':
        out = '%s%s %s\n%s' % (p, K('if'), expr_text(s[1], st), block_text(s[2], ind + 1, st))
        for c, b in s[3]:
            out += '%s%s %s\n%s' % (p, K('elif'), expr_text(c, st), block_text(b, ind + 1, st))
        if s[4] is not None:
            out += '%s%s\n%s' % (p, K('else'), block_text(s[4], ind + 1, st))
        return out + '%s%s %s;\n' % (p, K('end'), K('if'))
    if t == 'while':
        return '%s%s %s\n%s%s%s %s;\n' % (p, K('while'), expr_text(s[1], st), block_text(s[2], ind + 1, st), p, K('end'), K('while'))
    if t == 'foreach':
        return '%s%s %s %s %s %s\n%s%s%s %s;\n' % (p, K('for'), K('each'), s[1], K('in'), s[2],
                                                 block_text(s[3], ind + 1, st), p, K('end'), K('for'))
    if t == 'break':
        return p + K('break') + ';\n'
    if t == 'continue':
        return p + K('continue') + ';\n'
    if t == 'stop':
        return '%s%s %s;\n' % (p, K('control'), K('stop'))
    if t == 'return':
        return p + K('return') + (' ' + expr_text(s[1], st) if s[1] is not None else '') + ';\n'
    if t == 'create':
        return '%s%s %s %s %s %s %s;\n' % (p, K('create'), K('object'), K('instance'), s[1], K('of'), s[2])
    if t == 'create_nv':
        return '%s%s %s %s %s %s;\n' % (p, K('create'), K('object'), K('instance'), K('of'), s[1])
    if t == 'delete':
        return '%s%s %s %s %s;\n' % (p, K('delete'), K('object'), K('instance'), s[1])
    if t in ('relate', 'unrelate'):
        return "%s%s %s %s %s %s R%d%s;\n" % (p, K(t), s[1], K('to' if t == 'relate' else 'from'), s[2], K('across'), s[3],
                                             (".'%s'" % s[4]) if s[4] else '')
    if t in ('relate_using', 'unrelate_using'):
        w = t.split('_')[0]
        return "%s%s %s %s %s %s R%d %s %s;\n" % (p, K(w), s[1], K('to' if w == 'relate' else 'from'), s[2], K('across'), s[4],
                                                 K('using'), s[3])
    if t == 'select':
        out = '%s%s %s %s %s %s %s %s' % (p, K('select'), K(s[1]), s[2], K('from'), K('instances'), K('of'), s[3])
        if s[4] is not None:
            out += ' %s %s' % (K('where'), expr_text(s[4], st))
        return out + ';\n'
    if t == 'select_rel':
        out = '%s%s %s %s %s %s %s%s' % (p, K('select'), K(s[1]), s[2], K('related'), K('by'), expr_text(s[3], st), nav_text(s[4]))
        if s[5] is not None:
            out += ' %s %s' % (K('where'), expr_text(s[5], st))
        return out + ';\n'
    if t == 'callstmt':
        # optional third field: the statement keyword (transform / bridge) written in front of the invocation
        return p + ((K(s[2]) + ' ') if len(s) > 2 else '') + call_text(s[1], st) + ';\n'
    raise ValueError(s)


def to_text(prog, style='lower'):
    return block_text(prog, 0, style)


# ------------------------------------------------------------------------------------------------
# reference evaluator over a plain relational model

class Inst(object):
    """a row of the reference population"""
    __slots__ = ('kind', 'num', 'vals')

    def __init__(self, kind, num, vals):
        self.kind, self.num, self.vals = kind, num, vals


class Pop(object):
    """reference population: rows per class in creation order, ordered adjacency per association"""

    def __init__(self):
        self.rows = {k: [] for k in ATTRS}
        self.count = 0
        self.adj = {}      # (id(inst), to_kind, rel, phrase) -> [inst]

    def new(self, kind, **vals):
        d = {a: DEFAULTS[a] for a in ATTRS[kind]}
        d.update(vals)
        i = Inst(kind, self.count, d)
        self.count += 1
        self.rows[kind].append(i)
        return i

    def _add(self, x, y, rel, pxy):
        self.adj.setdefault((id(x), y.kind, rel, pxy), []).append(y)

    def _rm(self, x, y, rel, pxy):
        l = self.adj.get((id(x), y.kind, rel, pxy), [])
        for n, z in enumerate(l):
            if z is y:
                del l[n]
                return

    def _phr(self, x, y, rel, phrase):
        """(phrase x->y, phrase y->x)"""
        if rel == 2:
            other = 'succeeds' if phrase == 'precedes' else 'precedes'
            return phrase, other
        return '', ''

    def relate(self, x, y, rel, phrase=None):
        pxy, pyx = self._phr(x, y, rel, phrase)
        self._add(x, y, rel, pxy)
        self._add(y, x, rel, pyx)

    def unrelate(self, x, y, rel, phrase=None):
        pxy, pyx = self._phr(x, y, rel, phrase)
        self._rm(x, y, rel, pxy)
        self._rm(y, x, rel, pyx)

    def delete(self, x):
        self.rows[x.kind] = [r for r in self.rows[x.kind] if r is not x]
        for key in list(self.adj):
            if key[0] == id(x):
                del self.adj[key]
            else:
                self.adj[key] = [z for z in self.adj[key] if z is not x]

    def nav(self, handle, steps):
        cur = list(handle)
        for (kind, rel, phrase) in steps:
            nxt = []
            for x in cur:
                if rel == 3 and x.kind in ('A', 'B') and kind in ('A', 'B'):
                    # across the association class: via the link instances
                    mids = self.adj.get((id(x), 'L', 3, ''), [])
                    ys = []
                    for l in mids:
                        ys.extend(self.adj.get((id(l), kind, 3, ''), []))
                else:
                    ys = self.adj.get((id(x), kind, rel, phrase or ''), [])
                for y in ys:
                    if not any(y is z for z in nxt):
                        nxt.append(y)
            cur = nxt
        return cur

    def signature(self):
        """rows (attribute values in creation order) and links by row position"""
        rows = {k: [tuple(r.vals[a] for a in ATTRS[k]) for r in self.rows[k]] for k in ATTRS}
        pos = {}
        for k in ATTRS:
            for n, r in enumerate(self.rows[k]):
                pos[id(r)] = (k, n)
        links = set()
        for (xid, kind, rel, phrase), ys in self.adj.items():
            if xid not in pos:
                continue
            for y in ys:
                links.add((rel, phrase, pos[xid], pos[id(y)]))
        return rows, links


class _Return(Exception):
    pass


class _Break(Exception):
    pass


class _Continue(Exception):
    pass


class _Stop(Exception):
    pass


class RefEval(object):
    """the language's rules, written against the OAL reference manual, over a Pop"""

    def __init__(self, pop, params=None, self_inst=None, callables=None):
        self.pop = pop
        self.params = params or {}
        self.self_inst = self_inst
        self.callables = callables or {}
        self.scopes = [{}]
        self.ret = None

    # variables live in the block that first assigns them and are visible in nested blocks
    def lookup(self, name):
        for sc in reversed(self.scopes):
            if name in sc:
                return sc[name]
        raise KeyError(name)

    def assign(self, name, value):
        for sc in reversed(self.scopes):
            if name in sc:
                sc[name] = value
                return
        self.scopes[-1][name] = value

    def ev(self, e, selected=None):
        t = e[0]
        if t in ('int', 'bool', 'str'):
            return e[1]
        if t == 'var':
            return self.lookup(e[1])
        if t == 'param':
            return self.params[e[1]]
        if t == 'selected':
            return selected
        if t == 'self':
            return self.self_inst
        if t == 'attr':
            h = self.ev(e[1], selected)
            return self.read_attr(h, e[2])
        if t == 'un':
            v = self.ev(e[2], selected)
            op = e[1]
            if op == '-':
                return -v
            if op == 'not':
                return not v
            if op == 'empty':
                return v is None or (isinstance(v, list) and len(v) == 0)
            if op == 'not_empty':
                return not (v is None or (isinstance(v, list) and len(v) == 0))
            if op == 'cardinality':
                return 0 if v is None else (len(v) if isinstance(v, list) else 1)
        if t == 'bin':
            op = e[1]
            l = self.ev(e[2], selected)
            r = self.ev(e[3], selected)      # OAL evaluates both operands
            if op == '+': return l + r
            if op == '-': return l - r
            if op == '*': return l * r
            if op == '%': return l % r
            if op == '<': return l < r
            if op == '<=': return l <= r
            if op == '>': return l > r
            if op == '>=': return l >= r
            if op == '==': return l == r
            if op == '!=': return l != r
            if op == 'and': return bool(l) and bool(r)
            if op == 'or': return bool(l) or bool(r)
        if t == 'call':
            return self.call(e, selected)
        raise ValueError(e)

    def read_attr(self, h, name):
        if name in h.vals:
            return h.vals[name]
        d = self.callables.get(('derived', h.kind, name))
        if d is not None:
            return d(self, h)
        raise KeyError(name)

    def call(self, e, selected=None):
        _, kind, target, name, args = e
        vals = {n: self.ev(x, selected) for n, x in args}
        if kind == 'instance':
            inst = self.ev(target, selected)
            return self.callables[('instance', inst.kind, name)](self, vals, inst)
        if kind == 'class':
            return self.callables[('class', target, name)](self, vals, None)
        if kind == 'bridge':
            return self.callables[('bridge', target, name)](self, vals, None)
        return self.callables[('function', None, name)](self, vals, None)

    def block(self, stmts):
        self.scopes.append({})
        try:
            for s in stmts:
                self.stmt(s)
        finally:
            self.scopes.pop()

    def stmt(self, s):
        t = s[0]
        P = self.pop
        if t == 'assign':
            v = self.ev(s[2])
            if s[1][0] == 'var':
                self.assign(s[1][1], v)
            else:
                self.ev(s[1][1]).vals[s[1][2]] = v
        elif t == 'if':
            if self.ev(s[1]):
                self.block(s[2])
            else:
                for c, b in s[3]:
                    if self.ev(c):
                        self.block(b)
                        return
                if s[4] is not None:
                    self.block(s[4])
        elif t == 'while':
            while self.ev(s[1]):
                try:
                    self.block(s[2])
                except _Continue:
                    continue
                except _Break:
                    break
        elif t == 'foreach':
            for x in list(self.lookup(s[2])):
                self.assign(s[1], x)
                try:
                    self.block(s[3])
                except _Continue:
                    continue
                except _Break:
                    break
        elif t == 'break':
            raise _Break()
        elif t == 'continue':
            raise _Continue()
        elif t == 'stop':
            raise _Stop()
        elif t == 'return':
            self.ret = self.ev(s[1]) if s[1] is not None else None
            raise _Return()
        elif t == 'create':
            self.assign(s[1], P.new(s[2]))
        elif t == 'create_nv':
            P.new(s[1])
        elif t == 'delete':
            P.delete(self.inst(s[1]))
        elif t == 'relate':
            P.relate(self.inst(s[1]), self.inst(s[2]), s[3], s[4])
        elif t == 'unrelate':
            P.unrelate(self.inst(s[1]), self.inst(s[2]), s[3], s[4])
        elif t == 'relate_using':
            a, b, l = self.inst(s[1]), self.inst(s[2]), self.inst(s[3])
            P.relate(a, l, s[4]); P.relate(l, b, s[4])
        elif t == 'unrelate_using':
            a, b, l = self.inst(s[1]), self.inst(s[2]), self.inst(s[3])
            P.unrelate(a, l, s[4]); P.unrelate(l, b, s[4])
        elif t == 'select':
            rows = list(P.rows[s[3]])
            if s[4] is not None:
                rows = [r for r in rows if self.ev(s[4], selected=r)]
            self.assign(s[2], rows if s[1] == 'many' else (rows[0] if rows else None))
        elif t == 'select_rel':
            start = self.ev(s[3])
            handle = [] if start is None else (start if isinstance(start, list) else [start])
            rows = P.nav(handle, s[4])
            if s[5] is not None:
                rows = [r for r in rows if self.ev(s[5], selected=r)]
            self.assign(s[2], rows if s[1] == 'many' else (rows[0] if rows else None))
        elif t == 'callstmt':
            self.call(s[1])
        else:
            raise ValueError(s)

    def inst(self, name):
        return self.self_inst if name == 'self' else self.lookup(name)

    def run(self, prog):
        try:
            self.block(prog)
        except (_Return, _Stop):
            pass
        return self.ret
