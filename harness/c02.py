from engine_api import Cond

PROPERTY = 'C02'
LEVEL = 'other'
ASSUMPTIONS = [
    'instance pools of 2 per class (3 in the thorough tier for single-association shapes); one deletable instance per class',
    'pre-states are installed with Link.connect(check=False) on both directions (what the loader does) and verified through navigation before the step',
    'relate/unrelate with a deleted instance as operand is outside the claim (only a repeated delete of it is in)',
    'formatting stub: xtuml.Class.__str__ replaced by a constant (exception messages stringify instances)',
    'identifying values are symbolic, unbounded, positive',
]
SHAPES = ['1C_MC', '1_M', '1C_1C', '1_1_phr', 'refl', 'refl_M', 'assoc', 'assoc_1', 'subsuper', 'two_rels', 'comp_key', 'int_key']
OPS = ['relate_st', 'relate_ts', 'unrelate_st', 'unrelate_ts', 'relate_unrelate', 'delete_s', 'delete_t',
       'relate_badrel', 'unrelate_badrel', 'relate_badphrase', 'unrelate_badphrase', 'relate_none',
       'unrelate_none', 'relate_wrongkinds', 'new', 'relate_nophrase', 'unrelate_nophrase']


def conditions(tier, seed):
    out = []
    for sh in SHAPES:
        for op in OPS:
            pool = 2
            if op == 'relate_wrongkinds' and sh.startswith('refl'):
                continue
            if op.endswith('_nophrase') and sh not in ('1_1_phr', 'refl', 'refl_M'):
                continue      # only shapes whose ends carry phrases
            if tier == 'thorough' and sh in ('1C_MC', '1C_1C', 'refl', 'refl_M') and op in (
                    'relate_st', 'relate_ts', 'unrelate_st', 'unrelate_ts', 'delete_s', 'delete_t', 'relate_unrelate'):
                pool = 3
            if tier == 'quick' and op in ('unrelate_badrel', 'unrelate_badphrase', 'unrelate_none') \
                    and sh not in ('1C_MC', 'refl', 'assoc'):
                continue
            out.append(Cond('%s_%s' % (sh, op), 'c02_step.py', dict(shape=sh, op=op, pool=pool),
                            timeout=300 if tier == 'quick' else 2400,
                            bound='shape %s: every valid link matrix over pools of %d, every liveness '
                                  'combination, one %s at every operand pair' % (sh, pool, op),
                            symbolic=['v0', 'v1 (identifying values, unbounded ints)'],
                            case_split=['ci = index into the table of all (link matrices, liveness, association, operand pair) cases'],
                            twin=(op in ('relate_st', 'delete_t', 'new'))))
    # cross-check of the induction argument: complete histories from the empty model
    for sh in ['1C_MC', '1C_1C', 'refl', 'refl_M']:
        k = 3 if tier == 'quick' else 4
        ns = 8 if tier == 'quick' else 64
        picks = list(range(ns))
        for p in picks:
            out.append(Cond('history%d_%s_s%d' % (k, sh, p), 'c02_hist.py', dict(shape=sh, op='relate_st', pool=2, k=k, shard=p, nshards=ns),
                            timeout=600 if tier == 'quick' else 2400,
                            bound='shape %s: every history of %d calls out of 16 (relate both orders, unrelate, delete) on 2+2 instances, state checked after every step (shard %d/%d)' % (sh, k, p, ns),
                            case_split=['si (history)'], twin=(p == picks[0])))
    return out
