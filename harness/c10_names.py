"""C10: every spelling of a class / attribute name addresses one stored value.
Spelling choices and operation codes are case-split; written values are symbolic-through."""
import xtuml
from xtuml import where_eq
from hlib import POST, PARAMS, cs, case, known, notrace, stub_str

stub_str()
LAST_DIFF = None
HLEN = PARAMS.get('hlen', 2)
ABSENT = object()
# declared attribute names: letter-initial, or beginning with an underscore (PARAMS names=underscore)
A, I, R = ('_b', '_d', '_f') if PARAMS.get('names') == 'underscore' else ('Ab', 'Id', 'Rf')


def sp(name, bits):
    return ''.join(c.upper() if (bits >> n) & 1 else c.lower() for n, c in enumerate(name))


def mk():
    m = xtuml.MetaModel(xtuml.IntegerGenerator())
    m.define_class('Tt', [(I, 'unique_id')])
    m.define_class('Kl', [(I, 'unique_id'), (A, 'integer'), (R, 'unique_id')])
    ass = m.define_association(1, 'Kl', [R], True, True, '', 'Tt', [I], False, True, '')
    ass.formalize()
    m.define_unique_identifier('Kl', 1, I)
    return m


NOPS = 9       # set Ab, set Id, del Ab, relate, unrelate, set Rf (rejected), del Id, read Rf, set the REFERRED identifier
NCODES = NOPS * 4


def apply_op(m, k, t, code, val, cell):
    """apply one operation to the real instance and to the model cell dict"""
    op, s = code // 4, code % 4
    if op == 0:
        setattr(k, sp(A, s), val); cell['Ab'] = val
    elif op == 1:
        setattr(k, sp(I, s), val); cell['Id'] = val
    elif op == 2:
        try:
            delattr(k, sp(A, s))
            if cell['Ab'] is ABSENT:
                return 'deleting an absent attribute did not raise'
        except (AttributeError, KeyError):
            if cell['Ab'] is not ABSENT:
                return 'delete of a stored attribute raised'
        cell['Ab'] = ABSENT
    elif op == 6:
        try:
            delattr(k, sp(I, s))
            if cell['Id'] is ABSENT:
                return 'deleting an absent attribute did not raise'
        except (AttributeError, KeyError):
            if cell['Id'] is not ABSENT:
                return 'delete of a stored attribute raised'
        cell['Id'] = ABSENT
    elif op == 3:
        if s != 0:
            return 'skip'
        if not cell['Rf']:
            xtuml.relate(k, t, 1); cell['Rf'] = True
    elif op == 4:
        if s != 0:
            return 'skip'
        if cell['Rf']:
            xtuml.unrelate(k, t, 1); cell['Rf'] = False
    elif op == 7:
        got = read(k, sp(R, s))
        if cell['Rf']:
            if got is ABSENT or got is None or got != cell['tid']:
                return 'referential read in the middle of the history'
        elif got is not None:
            return 'referential read when unlinked in the middle of the history'
    elif op == 8:
        if not (val > 0):
            return 'skip'
        setattr(t, sp(I, s), val); cell['tid'] = val
    elif op == 5:
        try:
            setattr(k, sp(R, s), val)
            return 'assignment to a referential attribute accepted'
        except xtuml.MetaException:
            pass
    return None


def read(k, name):
    try:
        return getattr(k, name)
    except AttributeError:
        return ABSENT


def observe_all(m, k, t, tid, cell):
    """read every attribute under every spelling; query by every spelling"""
    for bits in range(4):
        for attr in ('Ab', 'Id'):
            got = read(k, sp({'Ab': A, 'Id': I}[attr], bits))
            exp = cell[attr]
            if exp is ABSENT:
                if got is not ABSENT:
                    return ('read of deleted attribute', attr, bits)
            elif got is ABSENT or got != exp:
                return ('read', attr, bits)
        got = read(k, sp(R, bits))
        tid = cell.get('tid', tid)
        if cell['Rf']:
            if got is ABSENT or got is None or got != tid:
                return ('referential read', bits)
        elif got is not None:
            return ('referential read when unlinked', bits)
        if cell['Ab'] is not ABSENT:
            sel = m.select_many('Kl', where_eq(**{sp(A, bits): cell['Ab']}))
            if len(sel) != 1:
                return ('where_eq', bits)
    return None


def check_hist(c1: int, c2: int, c3: int, v0: int, v1: int, v2: int, v3: int, tid: int) -> bool:
    """
    pre: 0 <= c1 < NCODES and 0 <= c2 < NCODES and 0 <= c3 < NCODES
    pre: HLEN >= 3 or c3 == 0
    pre: tid > 0
    post: POST(_)
    """
    global LAST_DIFF
    codes = [cs(c1, 0, NCODES - 1), cs(c2, 0, NCODES - 1)]
    if HLEN >= 3:
        codes.append(cs(c3, 0, NCODES - 1))
    with notrace():
        m = mk()
        t = m.new('Tt')
        k = m.new('Kl')
    setattr(t, I, tid)
    setattr(k, A, v0)
    cell = {'Ab': v0, 'Id': getattr(k, I), 'Rf': False, 'tid': tid}
    if PARAMS.get('linked'):
        xtuml.relate(k, t, 1); cell['Rf'] = True       # histories that start from a linked pair
    vals = [v1, v2, v3]
    for n, code in enumerate(codes):
        r = apply_op(m, k, t, code, vals[n], cell)
        if r == 'skip':
            return None
        if r is not None:
            case('hist', codes)
            key = 'C10/delattr-absent' if 'absent' in r else None
            if key and known(key):
                return None
            LAST_DIFF = (r, codes); return False
    case('hist', codes)
    d = observe_all(m, k, t, tid, cell)
    if d is not None:
        LAST_DIFF = (d, codes); return False
    return True


def check_ctor(ks: int, s_ab: int, s_id: int, s_rf: int, use: int, va: int, vi: int, tid: int) -> bool:
    """
    pre: 0 <= ks < 4 and 0 <= s_ab < 4 and 0 <= s_id < 4 and 0 <= s_rf < 4 and 0 <= use < 8
    pre: tid > 0
    post: POST(_)
    """
    # constructor keywords under every spelling (plain, identifying, referential) and kind spelling
    global LAST_DIFF
    ks = cs(ks, 0, 3); s_ab = cs(s_ab, 0, 3); s_id = cs(s_id, 0, 3); s_rf = cs(s_rf, 0, 3); use = cs(use, 0, 7)
    if (not (use & 1) and s_ab) or (not (use & 2) and s_id) or (not (use & 4) and s_rf):
        return None
    with notrace():
        m = mk()
        t = m.new('Tt')
    t.Id = tid
    kw = {}
    if use & 1: kw[sp('ab', s_ab)] = va
    if use & 2: kw[sp('id', s_id)] = vi
    if use & 4: kw[sp('rf', s_rf)] = tid
    k = m.new(sp('kl', ks), **kw)
    case('ctor', ks, s_ab, s_id, s_rf, use)
    cell = {'Ab': va if use & 1 else 0, 'Id': vi if use & 2 else read(k, 'Id'), 'Rf': bool(use & 4)}
    if not (use & 2) and (cell['Id'] is ABSENT or cell['Id'] == 0):
        LAST_DIFF = ('default id',); return False
    d = observe_all(m, k, t, tid, cell)
    if d is not None:
        LAST_DIFF = (d, ks, s_ab, s_id, s_rf, use); return False
    pool = list(m.select_many(sp('kl', 3 - ks)))
    if len(pool) != 1 or pool[0] is not k:
        LAST_DIFF = ('pool', len(pool)); return False
    return True


def check_kind(a: int, b: int, which: int) -> bool:
    """
    pre: 0 <= a < 4 and 0 <= b < 4 and 0 <= which < 6
    post: POST(_)
    """
    global LAST_DIFF
    a = cs(a, 0, 3); b = cs(b, 0, 3); which = cs(which, 0, 5)
    with notrace():
        m = mk()
    k = m.new(sp('kl', a))
    case('kind', a, b, which)
    mc = m.find_metaclass(sp('kl', b))
    ok = True
    if which == 0:
        ok = mc is m.find_metaclass('Kl') and xtuml.get_metaclass(k) is mc
    elif which == 1:
        ok = list(m.select_many(sp('kl', b))) == [k]
    elif which == 2:
        ok = m.select_one(sp('kl', b)) is k and m.select_any(sp('kl', b)) is k
    elif which == 3:
        ok = m.find_class(sp('kl', b)) is type(k)
    elif which == 4:
        try:
            m.define_class(sp('kl', b), [])
            ok = False
        except xtuml.MetaException:
            ok = True
    elif which == 5:
        ok = mc.attribute_type(sp('ab', b)) == 'integer' and mc.attribute_type(sp('rf', a)) == 'unique_id'
    if not ok:
        LAST_DIFF = ('kind lookup', a, b, which); return False
    return True


def check_serialize(c1: int, c2: int, v1: int, v2: int) -> bool:
    """
    pre: 0 <= c1 < 8 and 0 <= c2 < 8 and 0 <= v1 < 3 and 0 <= v2 < 3
    post: POST(_)
    """
    # two writes (Ab / Id under any spelling), then the serialized text carries the last values
    global LAST_DIFF
    c1 = cs(c1, 0, 7); c2 = cs(c2, 0, 7); v1 = cs(v1, 0, 2) + 5; v2 = cs(v2, 0, 2) + 8
    with notrace():
        m = mk()
        k = m.new('Kl')
    cell = {'Ab': 0, 'Id': k.Id}
    for c, v in ((c1, v1), (c2, v2)):
        attr = 'Ab' if c < 4 else 'Id'
        setattr(k, sp(attr, c % 4), v)
        cell[attr] = v
    case('serialize', c1, c2, v1, v2)
    with notrace():
        text = xtuml.serialize_instance(k)
        exp = 'INSERT INTO Kl VALUES (\n    %s, -- Id : unique_id\n    %d, -- Ab : integer\n    %s -- Rf : unique_id\n);\n' % (
            xtuml.serialize_value(cell['Id'], 'unique_id'), cell['Ab'], xtuml.serialize_value(None, 'unique_id'))
    if text != exp:
        LAST_DIFF = ('serialize_instance', text, exp); return False
    return True


LOADED_TEXT = """CREATE TABLE Tt (Id UNIQUE_ID);
CREATE TABLE Kl (Id UNIQUE_ID, Ab INTEGER);
CREATE ROP REF_ID R1 FROM 1C Kl (Id) TO 1 Tt (Id);
CREATE UNIQUE INDEX I1 ON Kl (Id);
INSERT INTO Tt VALUES (1001);
INSERT INTO Tt VALUES (2002);
INSERT INTO Kl VALUES (1001, 5);
"""


def check_loaded(op: int, s1: int, s2: int, v: int) -> bool:
    """
    pre: 0 <= op < 4 and 0 <= s1 < 4 and 0 <= s2 < 4 and 0 <= v < 2
    post: POST(_)
    """
    # a LOADED instance whose identifying attribute is also referential (subtype style): after
    # re-relating it / rewriting the referred identifier / writing the plain attribute, every
    # spelling reads the live value, where_eq matches it and the serialized value agrees
    global LAST_DIFF
    op = cs(op, 0, 3); s1 = cs(s1, 0, 3); s2 = cs(s2, 0, 3); v = cs(v, 0, 1) + 40
    with notrace():
        l = xtuml.ModelLoader(); l.input(LOADED_TEXT)
        m = l.build_metamodel()
        k = m.select_one('Kl'); t1, t2 = list(m.select_many('Tt'))
    exp_id = 1001
    if op == 1:
        xtuml.unrelate(k, t1, 1); xtuml.relate(k, t2, 1); exp_id = 2002
    elif op == 2:
        setattr(t1, sp('id', s1), 3003); exp_id = 3003
    elif op == 3:
        xtuml.unrelate(k, t1, 1); exp_id = None
    setattr(k, sp('ab', s1), v)
    case('loaded', op, s1, s2)
    got = read(k, sp('id', s2))
    if got is ABSENT or (got != exp_id if exp_id is not None else got is not None):
        LAST_DIFF = ('identifier read under spelling %s' % sp('id', s2), repr(got), exp_id); return False
    if read(k, sp('ab', s2)) != v:
        LAST_DIFF = ('plain read',); return False
    if exp_id is not None:
        sel = m.select_many('kl', where_eq(**{sp('id', s2): exp_id}))
        if len(sel) != 1:
            LAST_DIFF = ('where_eq on the identifier under spelling %s' % sp('id', s2), len(sel)); return False
        with notrace():
            txt = xtuml.serialize_instance(k)
        if xtuml.serialize_value(exp_id, 'UNIQUE_ID') not in txt:
            LAST_DIFF = ('serialized identifier', txt); return False
    return True


def check_two_models(sa: int, sb: int, sc: int, first: int, va: int, vb: int) -> bool:
    """
    pre: 0 <= sa < 4 and 0 <= sb < 4 and 0 <= sc < 2 and 0 <= first < 2
    pre: 0 < va < vb
    post: POST(_)
    """
    # TWO metamodels in one process declare a class with the same key letters but spell the attribute differently
    # (Val / vAL); whatever was read or written on one model first, every spelling on the other model addresses that
    # model's own single value (nothing about names may be remembered across metamodels)
    global LAST_DIFF
    SPL = [0, 7, 2, 5]       # val VAL vAl VaL
    sa = SPL[cs(sa, 0, 3)]; sb = SPL[cs(sb, 0, 3)]; sc = SPL[2 + cs(sc, 0, 1)]; first = cs(first, 0, 1)
    with notrace():
        m1 = xtuml.MetaModel(xtuml.IntegerGenerator()); m1.define_class('Kq', [('Id', 'unique_id'), ('Val', 'integer')])
        m2 = xtuml.MetaModel(xtuml.IntegerGenerator()); m2.define_class('Kq', [('vAL', 'integer'), ('Id', 'unique_id')])
    order = [m1, m2] if first == 0 else [m2, m1]
    x = order[0].new('Kq')
    setattr(x, sp('val', sa), va)
    r1 = getattr(x, sp('val', sb))
    y = order[1].new('Kq')
    y2 = order[1].new('Kq')
    setattr(y, sp('val', sb), vb)
    case('two_models', sa, sb, sc, first)
    if not (r1 == va):
        LAST_DIFF = ('first model', sa, sb); return False
    for s in range(8):
        if s not in (sb, sc, 7):
            continue
        if not (getattr(y, sp('val', s)) == vb):
            LAST_DIFF = ('second metamodel: value written as %s read as something else under %s' % (sp('val', sb), sp('val', s)), first); return False
        if not (getattr(y2, sp('val', s)) == 0):
            LAST_DIFF = ('second metamodel: sibling instance', sp('val', s)); return False
    declared = 'vAL' if order[1] is m2 else 'Val'
    if [k for k in vars(y) if k.upper() == 'VAL'] not in ([declared], []):
        LAST_DIFF = ('second metamodel: value stored under a stray name', sorted(vars(y))); return False
    got = list(order[1].select_many('Kq', where_eq(**{sp('val', sc): vb})))
    exp = [z for z in (y, y2) if (vb if z is y else 0) == vb]
    if len(got) != len(exp) or any(g is not e for g, e in zip(got, exp)):
        LAST_DIFF = ('second metamodel: where_eq under another spelling', sp('val', sc)); return False
    return True


def check_late_class(a: int, b: int, which: int) -> bool:
    """
    pre: 0 <= a < 4 and 0 <= b < 4 and 0 <= which < 4
    post: POST(_)
    """
    # a class looked up (and correctly not found) BEFORE it is defined is found under every spelling afterwards
    global LAST_DIFF
    a = cs(a, 0, 3); b = cs(b, 0, 3); which = cs(which, 0, 3)
    with notrace():
        m = mk()
    probes = [lambda n: m.find_class(n), lambda n: m.find_metaclass(n), lambda n: m.new(n), lambda n: m.select_any(n)]
    try:
        probes[which](sp('zq', a))
        LAST_DIFF = ('undefined class found', a, which); return False
    except xtuml.UnknownClassException:
        pass
    m.define_class(sp('zq', b), [('Id', 'unique_id'), ('N', 'integer')])
    case('late', a, b, which)
    try:
        z = m.new(sp('zq', a), N=5)
        for s in range(4):
            if m.find_metaclass(sp('zq', s)) is not xtuml.get_metaclass(z) or m.find_class(sp('zq', s)) is not type(z):
                LAST_DIFF = ('class defined after a failed lookup is not addressed by the spelling', sp('zq', s)); return False
            if list(m.select_many(sp('zq', s))) != [z] or m.select_any(sp('zq', s)) is not z:
                LAST_DIFF = ('selection under the spelling', sp('zq', s)); return False
    except xtuml.UnknownClassException:
        LAST_DIFF = ('class defined after a failed lookup under the spelling %s is unknown under that spelling' % sp('zq', a), b, which); return False
    return True
