"""C13 (end to end): source positions under layout, and totality under single edits.

Programs are tokenised by an independent regular expression (not by PLY).  The solver picks a
program, one gap between two tokens, the layout put into that gap and the layout used for all other
gaps; the text is assembled with known token offsets and parsed by the real parser (outside the
tracer: PLY cannot run traced).  Oracle for statement and expression nodes:
  * the node starts at the first character of a token and ends behind the last character of a
    token; character_stream is exactly the text between; lines and columns are those of these two
    tokens counted directly in the text;
  * (first token, last token) of every node is the same under every layout, and equals the
    reviewed expectation fixtures/oal_positions.expected.json for the canonical layout.
Totality: a single token-level edit (delete, duplicate, swap, truncate, illegal character, unclosed
string / phrase / comment) either parses or raises oal.ParseException, within a time limit; what
parses is position-consistent w.r.t. the edited text.
This part EXERCISES the real parser on solver-enumerated inputs (no verdict over all texts)."""
import json
import os
import re
import signal
from bridgepoint import oal
from hlib import POST, PARAMS, cs, case, notrace
import c07_layout

LAST_DIFF = None
ROOT = os.path.dirname(os.path.dirname(os.path.abspath(__file__)))
TOKEN = c07_layout.TOKEN

EXTRA = [
    'x = ( 1 + 2 ) * ( ( 3 ) ) - - 4; y = not ( x == 3 or x != 4 and true );',
    "select any a from instances of A; select one b related by a->B[R1]->C[R2.'is here'] where (selected.n == 1 and selected.m > ( 2 ));",
    "select many bs related by self->B[R1]; select any b from instances of B where selected.n >= param.k; z = bs;",
    "create object instance a of A; create object instance of B; delete object instance a;",
    "relate a to b across R1; relate a to b across R2.'one phrase'; unrelate a from b across R1; unrelate a from b across R2.'one phrase';",
    "relate a to b across R3 using l; unrelate a from b across R3 using l; control stop;",
    'x = ::f( a: 1, b: ::g( c: "s", d: 2.5 ), e: self.m ); ::h(); r = A::cop( p: x ) + a.iop();',
    'if ( a.n == 1 ) x = 1; elif ( a.n == 2 ) x = 2; y = 3; else x = 4; end if; return x % 2;',
    'while ( i < 10 ) for each a in as if ( empty a ) continue; end if; break; end for; i = i + 1; end while; return;',
    'x = E::one; y = cardinality as; z = not_empty a and not empty b; a.n = a.b.c; v = w[1]; w[2] = 3; t = p.q[0].r;',
    'create event instance e of E1:\'go now\'(x: 1) to a; generate e; generate E2*(y: 2) to a; create event instance f of E3 to A creator;',
    'return ( true );',
    # keywords used as member names (kw_as_identifier productions)
    'x = a.cardinality; y = a.selected; z = a.if; w = a.bridge + a.param; a.empty = 1; b.self = a.rcvd_evt; c.and = c.else;',
]
PROGS = list(c07_layout.PROGS) + EXTRA
NP = len(PROGS)
GAPS = [' ', '\n', '\t', '  \n\t ', ' /* c */ ', ' /* multi\n line * comment */ ', ' // line comment ; if\n', '\r\n', '\n\n\n', ' /**/ ']
NG = len(GAPS)
INNER = [' ', '\n', '\t', ' \n ']     # inside `end if` / `end for` / `end while`
STMT_PARENT = 'StatementListNode'
OTHER = {'BodyNode', 'BlockNode', 'StatementListNode', 'ElIfListNode', 'ElIfNode', 'ElseNode', 'EventSpecNode', 'EventDataListNode',
         'EventDataItemNode', 'ParameterListNode', 'ParameterNode', 'NavigationListNode', 'NavigationStepNode'}


def tokens(text):
    """[(token text, glued to the previous token?)], `end if` etc. merged into one token"""
    raw = TOKEN.findall(text)
    assert ''.join(raw) == text, ('tokeniser does not cover the text', text)
    out = []
    glued = True
    for t in raw:
        if t.isspace():
            glued = False
            continue
        if t.lower() in ('if', 'for', 'while') and out and out[-1][0].lower() == 'end' and not glued:
            out[-1] = ('end\x00' + t, out[-1][1])
        else:
            out.append((t, glued and bool(out)))
        glued = True
    return out


def assemble(toks, slot, k1, k0):
    """text with gap k1 before token `slot` and gap k0 in every other gap that is not glued; returns text, offsets"""
    parts = []
    offs = []
    pos = 0
    for i, (t, glued) in enumerate(toks):
        if i > 0:
            if i == slot and not (t == '::'):
                g = GAPS[k1]
            elif glued:
                g = ''
            else:
                g = GAPS[k0]
            parts.append(g); pos += len(g)
        t = t.replace('\x00', INNER[(k0 + i) % len(INNER)])
        offs.append((pos, pos + len(t)))
        parts.append(t); pos += len(t)
    return ''.join(parts), offs


def walk(n, parent, out):
    out.append((n, parent))
    for c in getattr(n, 'children', ()):
        if isinstance(c, oal.Node):
            walk(c, n, out)


def consistent(text, n, strict):
    """positions of one node against the text itself; returns a reason or None"""
    pos = getattr(n, 'position', None)
    if pos is None:
        return None
    a, b = pos.start_stream, pos.end_stream
    if n.character_stream != text[a:b]:
        return 'character_stream is not text[start_stream:end_stream]'
    if not strict:
        return None
    if not (0 <= a < b <= len(text)):
        return 'empty or inverted span'
    if text[a].isspace() or text[b - 1].isspace():
        return 'span begins or ends in white space'
    if pos.start_line != 1 + text.count('\n', 0, a):
        return 'start_line %d, real line %d' % (pos.start_line, 1 + text.count('\n', 0, a))
    if pos.start_column != a - text.rfind('\n', 0, a):
        return 'start_column %d, real column %d' % (pos.start_column, a - text.rfind('\n', 0, a))
    if pos.end_column != (b - 1) - text.rfind('\n', 0, b - 1):
        return 'end_column %d, real column %d' % (pos.end_column, (b - 1) - text.rfind('\n', 0, b - 1))
    return None


def is_strict(n, parent):
    return type(n).__name__ not in OTHER


def spans(text, offs, toks):
    """parse and map every statement / expression node to (class, first token, last token)"""
    root = oal.parse(text)
    nodes = []
    walk(root, None, nodes)
    starts = {s: i for i, (s, e) in enumerate(offs)}
    ends = {e: i for i, (s, e) in enumerate(offs)}
    out = []
    for n, parent in nodes:
        strict = is_strict(n, parent)
        why = consistent(text, n, strict)
        if why:
            return None, (type(n).__name__, why, getattr(n, 'character_stream', None))
        if not strict:
            continue
        pos = getattr(n, 'position', None)
        if pos is None:
            return None, (type(n).__name__, 'no position recorded')
        i, j = starts.get(pos.start_stream), ends.get(pos.end_stream)
        if i is None or j is None or i > j:
            return None, (type(n).__name__, 'does not start / end at a token boundary', n.character_stream)
        last_tok_start = offs[j][0]
        if pos.end_line != 1 + text.count('\n', 0, last_tok_start):
            return None, (type(n).__name__, 'end_line %d, last token on line %d' % (pos.end_line, 1 + text.count('\n', 0, last_tok_start)))
        out.append([type(n).__name__, i, j])
    return out, None


try:
    with open(os.path.join(ROOT, 'fixtures', 'oal_positions.expected.json')) as _f:
        EXPECTED = json.load(_f)
except IOError:
    EXPECTED = {}
SHARD, NSHARDS = PARAMS.get('shard', 0), PARAMS.get('nshards', 1)
BG = PARAMS.get('background', [0, 1])
MYPROGS = list(range(NP))[SHARD::NSHARDS]
NMY = len(MYPROGS)
MAXTOK = max(len(tokens(p)) for p in PROGS)


def check_layout(pi: int, slot: int, k1: int, k0: int) -> bool:
    """
    pre: 0 <= pi < NMY and 1 <= slot < MAXTOK and 0 <= k1 < NG and 0 <= k0 < len(BG)
    post: POST(_)
    """
    global LAST_DIFF
    pi = MYPROGS[cs(pi, 0, NMY - 1)]; slot = cs(slot, 1, MAXTOK - 1); k1 = cs(k1, 0, NG - 1); k0 = BG[cs(k0, 0, len(BG) - 1)]
    with notrace():
        toks = tokens(PROGS[pi])
        if slot >= len(toks):
            return None
        text, offs = assemble(toks, slot, k1, k0)
        try:
            got, why = spans(text, offs, toks)
        except oal.ParseException as e:
            got, why = None, ('layout variant does not parse', str(e))
    case('layout', pi, slot, k1, k0)
    if why:
        LAST_DIFF = (why, text); return False
    exp = EXPECTED.get(PROGS[pi])
    if exp is None:
        LAST_DIFF = ('harness: no expectation for program', PROGS[pi]); return False
    if got != exp:
        d = [(g, e) for g, e in zip(got, exp) if g != e][:2]
        LAST_DIFF = ('node spans differ from the expected first/last tokens', d or (len(got), len(exp)), text); return False
    return True


EDITS = ['delete', 'duplicate', 'swap', 'truncate_before', 'truncate_inside', 'ins_at', 'ins_dollar', 'ins_backslash', 'ins_dquote',
         'ins_tick', 'ins_open_comment', 'ins_close_comment', 'ins_nul', 'ins_nonascii', 'ins_hash_line', 'ins_lone_slash', 'ins_formfeed', 'end_formfeed', 'end_nbsp']
NE = len(EDITS)
INS = {'ins_at': '@', 'ins_dollar': ' $ ', 'ins_backslash': '\\', 'ins_dquote': '"', 'ins_tick': "'", 'ins_open_comment': ' /* ',
       'ins_close_comment': ' */ ', 'ins_nul': '\x00', 'ins_nonascii': ' é  ', 'ins_hash_line': ' # x\n', 'ins_lone_slash': ' // ', 'ins_formfeed': '\x0c'}


class _Hang(Exception):
    pass


def edit(toks, slot, kind):
    ts = [t.replace('\x00', ' ') for t, _ in toks]
    seps = ['' if (g or i == 0) else ' ' for i, (_, g) in enumerate(toks)]
    if kind == 'delete':
        del ts[slot]; del seps[slot]
    elif kind == 'duplicate':
        ts.insert(slot, ts[slot]); seps.insert(slot + 1, ' ')
    elif kind == 'swap':
        if slot + 1 >= len(ts):
            return None
        ts[slot], ts[slot + 1] = ts[slot + 1], ts[slot]
    elif kind == 'truncate_before':
        ts = ts[:slot]; seps = seps[:slot]
    elif kind in ('end_formfeed', 'end_nbsp'):
        # the text ends in a character that str.split() takes for white space but the scanner does not (+ blanks)
        ts = ts[:slot + 1] + [{'end_formfeed': '\x0c', 'end_nbsp': '\xa0 \n'}[kind]]; seps = seps[:slot + 1] + ['']
    elif kind == 'truncate_inside':
        ts = ts[:slot] + [ts[slot][:max(1, len(ts[slot]) // 2)]]; seps = seps[:slot + 1]
    else:
        ts.insert(slot, INS[kind]); seps.insert(slot, '')
    return ''.join(s + t for s, t in zip(seps, ts))


def check_total(pi: int, slot: int, ek: int) -> bool:
    """
    pre: 0 <= pi < NMY and 0 <= slot < MAXTOK and 0 <= ek < NE
    post: POST(_)
    """
    global LAST_DIFF
    pi = MYPROGS[cs(pi, 0, NMY - 1)]; slot = cs(slot, 0, MAXTOK - 1); ek = cs(ek, 0, NE - 1)
    with notrace():
        toks = tokens(PROGS[pi])
        if slot >= len(toks):
            return None
        text = edit(toks, slot, EDITS[ek])
        if text is None:
            return None

        def on_alarm(signum, frame):
            raise _Hang()
        old = signal.signal(signal.SIGALRM, on_alarm)
        signal.setitimer(signal.ITIMER_REAL, 20.0)
        outcome = None
        try:
            try:
                root = oal.parse(text)
                outcome = 'tree'
            except oal.ParseException:
                outcome = 'rejected'
            except _Hang:
                outcome = 'hang'
            except Exception as e:  # noqa
                outcome = 'raises %s: %s' % (type(e).__name__, e)
        finally:
            signal.setitimer(signal.ITIMER_REAL, 0)
            signal.signal(signal.SIGALRM, old)
        why = None
        if outcome == 'tree':
            if not isinstance(root, oal.Node):
                why = ('parse returned', repr(root))
            else:
                nodes = []
                walk(root, None, nodes)
                for n, parent in nodes:
                    w = consistent(text, n, is_strict(n, parent))
                    if w:
                        why = (type(n).__name__, w, getattr(n, 'character_stream', None)); break
    case('total', pi, slot, EDITS[ek], outcome if outcome in ('tree', 'rejected') else 'other')
    if outcome not in ('tree', 'rejected'):
        LAST_DIFF = (outcome, text); return False
    if why:
        LAST_DIFF = (why, text); return False
    return True


HIST_EDITS = ['truncate_before', 'duplicate', 'ins_dquote', 'swap']


def check_history(p1: int, slot: int, ek: int, n: int) -> bool:
    """
    pre: 0 <= p1 < NMY and 2 <= slot < MAXTOK and 0 <= ek < 4 and 1 <= n <= 2
    post: POST(_)
    """
    # parse() has no memory: after n parses of an edited (mostly rejected) multi-line text the positions
    # recorded for a following valid multi-line text are those of that text alone
    global LAST_DIFF
    p1 = MYPROGS[cs(p1, 0, NMY - 1)]; slot = cs(slot, 2, MAXTOK - 1); ek = cs(ek, 0, 3); n = cs(n, 1, 2)
    p2 = (p1 * 7 + slot * 3 + ek) % NP      # the following valid program rotates through the corpus
    with notrace():
        toks = tokens(PROGS[p1])
        if slot >= len(toks):
            return None
        bad = edit(toks, slot, HIST_EDITS[ek])
        if bad is None:
            return None
        bad = bad.replace('; ', ';\n').replace(' ', '\n', 1)
        outcomes = []
        for _ in range(n):
            try:
                oal.parse(bad)
                outcomes.append('tree')
            except oal.ParseException:
                outcomes.append('rejected')
            except Exception as e:  # noqa
                outcomes.append('raises %s' % type(e).__name__)
        toks2 = tokens(PROGS[p2])
        text, offs = assemble(toks2, 1, 1, 1)
        try:
            got, why = spans(text, offs, toks2)
        except oal.ParseException as e:
            got, why = None, ('valid text rejected after %r' % outcomes, str(e))
    case('history', p1, slot, HIST_EDITS[ek], p2, n)
    if any(o.startswith('raises') for o in outcomes):
        LAST_DIFF = (outcomes, bad); return False
    if why:
        LAST_DIFF = (why, 'after', outcomes, bad, text); return False
    if got != EXPECTED.get(PROGS[p2]):
        LAST_DIFF = ('node spans differ after', outcomes, bad, text); return False
    return True
