"""C20: the XSD generated for a component mirrors its classes and data types.
Base: fixtures/Simple_Model.xtuml, component 'Comp'.  One edit per path (site case-split, new names
symbolic strings); build_schema runs traced; its element tree is inspected directly.  Metamorphic
oracle: declarations of the edited model = declarations of the baseline transformed by the edit;
plus a reviewed expected declaration set for the unedited fixture and XML well-formedness."""
import json
import os
import xml.etree.ElementTree as ET
import xtuml
from bridgepoint import ooaofooa, gen_xsd_schema as G
from xtuml import navigate_many as many, navigate_one as one
from hlib import POST, PARAMS, cs, case, known, notrace, stub_str

stub_str()
LAST_DIFF = None
EDIT = PARAMS.get('edit', 'rename')
FIXTURE = os.path.join(os.environ.get('VERIF_ROOT', '/verif'), 'fixtures', 'Simple_Model.xtuml')
LOADER = None


def load_bp():
    global LOADER
    if LOADER is None:
        LOADER = ooaofooa.Loader()
        LOADER.filename_input(FIXTURE)
    return LOADER.build_metamodel()


def decls(schema):
    """(elements: {class: [(attr, type)..]}, types: {name: (base, [enumerators])}, component name)"""
    types = {}
    elements = {}
    comp = None
    for ch in list(schema):
        if ch.tag == 'xs:simpleType':
            r = list(ch)[0]
            types[('<declared twice> ' if ch.get('name') in types else '') + ch.get('name')] = (r.get('base'), [e.get('value') for e in list(r)])
        elif ch.tag == 'xs:element':
            comp = ch.get('name')
            seq = list(list(ch)[0])[0]
            for cls in list(seq):
                ct = list(cls)[0]
                elements[('<declared twice> ' if cls.get('name') in elements else '') + cls.get('name')] = [(a.get('name'), a.get('type')) for a in list(ct)]
    return elements, types, comp


B_COMP_NAME = 'Comp'
with notrace():
    _bp = load_bp()
    B_ELEMS, B_TYPES, B_COMP = decls(G.build_schema(_bp, _bp.select_one('C_C', lambda x: x.Name == B_COMP_NAME)))
    ATTR_SITES = [(one(a).O_OBJ[102]().Key_Lett, a.Name) for a in _bp.select_many('O_ATTR')]
    BASE_ATTRS = [(one(a).O_OBJ[102]().Key_Lett, a.Name) for a in _bp.select_many('O_ATTR') if not one(a).O_RATTR[106]()]
    CLASSES = [o.Key_Lett for o in _bp.select_many('O_OBJ')]
TYPES = ['integer', 'string', 'boolean', 'real', 'unique_id', 'My_Integer', 'My_Enum', 'timestamp', 'void', '*nested']
NATTR, NBASE, NTYPES, NCLS = len(ATTR_SITES), len(BASE_ATTRS), len(TYPES), len(CLASSES)


def same_elems(got, exp):
    if sorted(got) != sorted(exp):
        return False
    for k in exp:
        g, e = got[k], exp[k]
        if len(g) != len(e):
            return False
        for pair in e:
            if not any(a == pair[0] and t == pair[1] for a, t in g):
                return False
    return True


SECOND = None        # edit scripts of length two: (attribute site, new name) of a rename applied AFTER the first edit


def finish(bp, exp_elems, exp_types, what, wellformed=False):
    global LAST_DIFF
    if SECOND is not None:
        kl2, name2, s2 = SECOND
        with notrace():
            cand = [a for a in bp.select_many('O_ATTR') if one(a).O_OBJ[102]().Key_Lett == kl2 and a.Name == name2]
        if len(cand) != 1:
            return None        # the first edit renamed this very attribute
        cand[0].Name = s2
        exp_elems = {k: [((s2 if (k == kl2 and a == name2) else a), t) for a, t in v] for k, v in exp_elems.items()}
        what = what + ', then rename %s.%s' % (kl2, name2)
    schema = G.build_schema(bp, bp.select_one('C_C', lambda x: x.Name == B_COMP_NAME))
    elems, types, comp = decls(schema)
    if comp != B_COMP or not same_elems(elems, exp_elems):
        LAST_DIFF = ('element declarations (%s)' % what, repr(elems), repr(exp_elems)); return False
    if sorted(types) != sorted(exp_types) or any(types[k][0] != exp_types[k][0] or list(types[k][1]) != list(exp_types[k][1]) for k in exp_types):
        LAST_DIFF = ('simple types (%s)' % what, repr(types), repr(exp_types)); return False
    if wellformed and SECOND is None:        # (with a symbolic name in the tree the realised-XML part is left to the single-edit runs)
        with notrace():
            try:
                txt = ET.tostring(schema, 'utf-8')
                back = ET.fromstring(txt)
                pretty = G.prettify(txt)
            except Exception as e:  # noqa
                LAST_DIFF = ('generated XML is not well-formed', str(e)); return False
    return True


def pregen(bp):
    """generate the schema once BEFORE the edit, on the same model object (generate - edit - generate)"""
    G.build_schema(bp, bp.select_one('C_C', lambda x: x.Name == B_COMP_NAME))


def find_attr(bp, kl, name):
    return [a for a in bp.select_many('O_ATTR') if one(a).O_OBJ[102]().Key_Lett == kl and a.Name == name][0]


def check_rename(si: int, s: str) -> bool:
    """
    pre: 0 <= si < NATTR and 1 <= len(s) <= 3
    post: POST(_)
    """
    si = cs(si, 0, NATTR - 1)
    kl, name = ATTR_SITES[si]
    with notrace():
        bp = load_bp()
        attr = find_attr(bp, kl, name)
        pregen(bp)
    attr.Name = s
    case(EDIT, kl, name)
    exp = {k: [((s if (k == kl and a == name) else a), t) for a, t in v] for k, v in B_ELEMS.items()}
    return finish(bp, exp, B_TYPES, 'rename %s.%s' % (kl, name))


def check_retype(bi: int, ti: int) -> bool:
    """
    pre: 0 <= bi < NBASE and 0 <= ti < NTYPES
    post: POST(_)
    """
    bi = cs(bi, 0, NBASE - 1); ti = cs(ti, 0, NTYPES - 1)
    kl, name = BASE_ATTRS[bi]
    with notrace():
        bp = load_bp()
        attr = find_attr(bp, kl, name)
        if TYPES[ti] == '*nested':
            # a user type based on the user type My_Integer (two levels above the core type integer)
            inner = bp.select_one('S_DT', lambda x: x.Name == 'My_Integer')
            new_dt = bp.new('S_DT', Name='My_Count')
            pe = bp.new('PE_PE')
            xtuml.relate(new_dt, pe, 8001); xtuml.relate(pe, one(inner).PE_PE[8001].EP_PKG[8000](), 8000)
            udt = bp.new('S_UDT')
            xtuml.relate(udt, new_dt, 17); xtuml.relate(udt, inner, 18)
        else:
            new_dt = bp.select_one('S_DT', lambda x: x.Name == TYPES[ti])
        pregen(bp)
        xtuml.unrelate(attr, one(attr).S_DT[114](), 114)
        xtuml.relate(attr, new_dt, 114)
        affected = set([(kl, name)])
        changed = True
        while changed:
            changed = False
            for a in bp.select_many('O_ATTR'):
                key = (one(a).O_OBJ[102]().Key_Lett, a.Name)
                b = one(a).O_RATTR[106].O_BATTR[113].O_ATTR[106]()
                if key not in affected and b is not None and (one(b).O_OBJ[102]().Key_Lett, b.Name) in affected:
                    affected.add(key); changed = True
    case(EDIT, kl, name, TYPES[ti])
    # the attribute's base data type: user-defined types are unwound to their base
    base = {'My_Integer': 'integer', 'timestamp': 'integer', 'void': None, '*nested': 'integer'}.get(TYPES[ti], TYPES[ti])
    exp = {}
    for k, v in B_ELEMS.items():
        lst = []
        for a, t in v:
            if (k, a) in affected:
                if base is not None:
                    lst.append((a, base))
            else:
                lst.append((a, t))
        exp[k] = lst
    exp_types = dict(B_TYPES)
    if TYPES[ti] == '*nested':
        exp_types['My_Count'] = ('My_Integer', [])
    return finish(bp, exp, exp_types, 'retype %s.%s to %s' % (kl, name, TYPES[ti]))


REF_ATTRS = [x for x in ATTR_SITES if x not in BASE_ATTRS]
NREF = len(REF_ATTRS)


def check_reftype(ri: int, ti: int) -> bool:
    """
    pre: 0 <= ri < NREF and 0 <= ti < 9
    post: POST(_)
    """
    # a referential attribute is typed by the REFERRED attribute's base type, whatever its own DT_ID says
    ri = cs(ri, 0, NREF - 1); ti = cs(ti, 0, 8)
    kl, name = REF_ATTRS[ri]
    with notrace():
        bp = load_bp()
        attr = find_attr(bp, kl, name)
        new_dt = bp.select_one('S_DT', lambda x: x.Name == TYPES[ti])
        pregen(bp)
        xtuml.unrelate(attr, one(attr).S_DT[114](), 114)
        xtuml.relate(attr, new_dt, 114)
    case(EDIT, kl, name, TYPES[ti])
    return finish(bp, B_ELEMS, B_TYPES, 'own data type of referential %s.%s set to %s' % (kl, name, TYPES[ti]))


def check_enum(op: int, s: str) -> bool:
    """
    pre: 0 <= op < 4 and 1 <= len(s) <= 3
    post: POST(_)
    """
    # 0: append an enumerator named s, 1: swap the two enumerators, 2: rename the first enumerator,
    # 3: remove every enumerator (an enumeration that has none yet is still a data type in scope: one simple type, no values)
    op = cs(op, 0, 3)
    with notrace():
        bp = load_bp()
        edt = bp.select_one('S_EDT')
        first = one(edt).S_ENUM[27](lambda sel: not one(sel).S_ENUM[56, 'succeeds']())
        second = one(first).S_ENUM[56, 'precedes']()
        pregen(bp)
        if op == 0:
            e3 = bp.new('S_ENUM', Name='tmp')
            xtuml.relate(e3, edt, 27)
            xtuml.relate(second, e3, 56, 'precedes')
        elif op == 1:
            xtuml.unrelate(first, second, 56, 'precedes')
            xtuml.relate(second, first, 56, 'precedes')
        elif op == 3:
            xtuml.delete(first); xtuml.delete(second)
    if op == 0:
        e3.Name = s
    elif op == 2:
        first.Name = s
    case(EDIT, op)
    base, enums = B_TYPES['My_Enum']
    exp_types = dict(B_TYPES)
    exp_types['My_Enum'] = (base, {0: enums + [s], 1: enums[::-1], 2: [s] + enums[1:], 3: []}[op])
    return finish(bp, B_ELEMS, exp_types, 'enumerators op %d' % op)


def check_udt(bi: int, ni: int) -> bool:
    """
    pre: 0 <= bi < 8 and 0 <= ni < 3
    post: POST(_)
    """
    # add a user-defined type named s (in the component's Types package) on base 'string' /
    # 'My_Integer' (UDT of a UDT) / 'My_Enum' / 'void' (unsupported base: no declaration)
    bi = cs(bi, 0, 7)
    s = ['Zt', 'a', 'My_Other_Type'][cs(ni, 0, 2)]     # type names are dictionary keys (hashed): case-split
    # *sibling1 / *sibling2: the new type lives in a package (one / two levels deep) of a SIBLING component: not in scope;
    # *deep: two packages below the component's own type package: in scope, declared once
    bname = ['string', 'My_Integer', 'My_Enum', 'void', '*rebase', '*sibling1', '*sibling2', '*deep'][bi]
    place = bname if bname in ('*sibling1', '*sibling2', '*deep') else None
    if place:
        bname = 'string'
    with notrace():
        bp = load_bp()
        pregen(bp)
        if bname == '*rebase':
            # change the base of the existing user type My_Integer from integer to real
            mi = bp.select_one('S_DT', lambda x: x.Name == 'My_Integer')
            u = one(mi).S_UDT[17]()
            xtuml.unrelate(u, one(u).S_DT[18](), 18)
            xtuml.relate(u, bp.select_one('S_DT', lambda x: x.Name == 'real'), 18)
        base = bp.select_one('S_DT', lambda x: x.Name == ('string' if bname == '*rebase' else bname))
        proto = bp.select_one('S_DT', lambda x: x.Name == 'My_Integer')
        pkg = one(proto).PE_PE[8001].EP_PKG[8000]()

        def sub_package(name, ep_pkg=None, c_c=None):
            p = bp.new('EP_PKG', Name=name)
            pe_p = bp.new('PE_PE', Visibility=1, type=7)
            xtuml.relate(p, pe_p, 8001)
            if ep_pkg is not None:
                xtuml.relate(pe_p, ep_pkg, 8000)
            if c_c is not None:
                xtuml.relate(pe_p, c_c, 8003)
            return p
        if place == '*deep':
            pkg = sub_package('Deeper', ep_pkg=sub_package('Deep', ep_pkg=pkg))
        elif place:
            other = bp.new('C_C', Name='Other', Mult=0, isRealized=False)
            pe_c = bp.new('PE_PE', Visibility=1, type=2)
            xtuml.relate(other, pe_c, 8001); xtuml.relate(pe_c, bp.select_one('EP_PKG', lambda x: x.Name == 'Components'), 8000)
            pkg = sub_package('Lib', c_c=other)
            if place == '*sibling2':
                pkg = sub_package('Inner', ep_pkg=sub_package('Mid', ep_pkg=pkg))
        s_dt = bp.new('S_DT', Name='tmp')
        pe = bp.new('PE_PE')
        xtuml.relate(s_dt, pe, 8001); xtuml.relate(pe, pkg, 8000)
        udt = bp.new('S_UDT')
        xtuml.relate(udt, s_dt, 17); xtuml.relate(udt, base, 18)
    s_dt.Name = s
    case(EDIT, place or bname)
    exp_types = dict(B_TYPES)
    if bname == '*rebase':
        exp_types['My_Integer'] = ('real', [])
        exp_types[s] = ('string', [])
    elif place in ('*sibling1', '*sibling2'):
        pass
    elif bname != 'void':
        exp_types[s] = (bname, [])
    return finish(bp, B_ELEMS, exp_types, 'new user type on %s' % bname)


def check_scope(ci: int, how: int) -> bool:
    """
    pre: 0 <= ci < NCLS and 0 <= how < 5
    post: POST(_)
    """
    # 0: move class ci out of the component (into the top-level package), 1: make its first base
    # attribute derived, 2: no edit (baseline = reviewed expected declarations, well-formed XML),
    # 3: move it into a package of a component NESTED in the component (still contained: no change),
    # 4: move it into a package of a sibling component (leaves the component)
    global LAST_DIFF
    ci = cs(ci, 0, NCLS - 1); how = cs(how, 0, 4)
    kl = CLASSES[ci]
    with notrace():
        bp = load_bp()
        o = bp.select_one('O_OBJ', lambda x: x.Key_Lett == kl)
        pregen(bp)
        exp = {k: list(v) for k, v in B_ELEMS.items()}
        if how == 0:
            pe = one(o).PE_PE[8001]()
            xtuml.unrelate(pe, one(pe).EP_PKG[8000](), 8000)
            xtuml.relate(pe, bp.select_one('EP_PKG', lambda x: x.Name == 'Components'), 8000)
            del exp[kl]
        elif how in (3, 4):
            pe = one(o).PE_PE[8001]()
            home = one(pe).EP_PKG[8000]()
            c_c = bp.new('C_C', Name='Inner', Mult=0, isRealized=False)
            pe_c = bp.new('PE_PE', Visibility=1, type=2)
            xtuml.relate(c_c, pe_c, 8001)
            xtuml.relate(pe_c, home if how == 3 else bp.select_one('EP_PKG', lambda x: x.Name == 'Components'), 8000)
            pkg = bp.new('EP_PKG', Name='P')
            pe_p = bp.new('PE_PE', Visibility=1, type=7)
            xtuml.relate(pkg, pe_p, 8001); xtuml.relate(pe_p, c_c, 8003)
            xtuml.unrelate(pe, home, 8000); xtuml.relate(pe, pkg, 8000)
            if how == 4:
                del exp[kl]
        elif how == 1:
            battr = one(o).O_ATTR[102].O_BATTR[106]()
            if battr is None or one(battr).O_ATTR[106]().Name not in [a for a, _ in exp[kl]]:
                return None
            d = bp.new('O_DBATTR')
            xtuml.relate(d, battr, 107)
            nm = one(battr).O_ATTR[106]().Name
            exp[kl] = [(a, t) for a, t in exp[kl] if a != nm]
    case(EDIT, kl, how)
    if how == 2:
        with open(FIXTURE.replace('.xtuml', '.xsd.expected.json')) as f:
            g = json.load(f)
        if not same_elems(B_ELEMS, {k: [tuple(x) for x in v] for k, v in g['elements'].items()}) or \
                {k: [v[0], list(v[1])] for k, v in B_TYPES.items()} != g['types']:
            LAST_DIFF = ('baseline declarations differ from the reviewed expectation',); return False
    return finish(bp, exp, B_TYPES, 'scope %s %d' % (kl, how), wellformed=True)


def _second(si2, s2, fn, *args):
    global SECOND
    kl2, name2 = ATTR_SITES[cs(si2, 0, NATTR - 1)]
    SECOND = (kl2, name2, s2)
    try:
        return fn(*args)
    finally:
        SECOND = None


def check_retype2(bi: int, ti: int, si2: int, s2: str) -> bool:
    """
    pre: 0 <= bi < NBASE and 0 <= ti < NTYPES and 0 <= si2 < NATTR and 1 <= len(s2) <= 2
    post: POST(_)
    """
    return _second(si2, s2, check_retype, bi, ti)


def check_reftype2(ri: int, ti: int, si2: int, s2: str) -> bool:
    """
    pre: 0 <= ri < NREF and 0 <= ti < 9 and 0 <= si2 < NATTR and 1 <= len(s2) <= 2
    post: POST(_)
    """
    return _second(si2, s2, check_reftype, ri, ti)


def check_scope2(ci: int, how: int, si2: int, s2: str) -> bool:
    """
    pre: 0 <= ci < NCLS and 0 <= how < 5 and how != 2 and 0 <= si2 < NATTR and 1 <= len(s2) <= 2
    post: POST(_)
    """
    return _second(si2, s2, check_scope, ci, how)


def check_udt2(bi: int, ni: int, si2: int, s2: str) -> bool:
    """
    pre: 0 <= bi < 8 and 0 <= ni < 3 and 0 <= si2 < NATTR and 1 <= len(s2) <= 2
    post: POST(_)
    """
    return _second(si2, s2, check_udt, bi, ni)


def check_enum2(op: int, s: str, si2: int, s2: str) -> bool:
    """
    pre: 0 <= op < 3 and 1 <= len(s) <= 2 and 0 <= si2 < NATTR and 1 <= len(s2) <= 2
    post: POST(_)
    """
    return _second(si2, s2, check_enum, op, s)
