"""C14: component extraction mirrors the BridgePoint class model.
Base: fixtures/Simple_Model.xtuml (+ ooaofooa globals), loaded outside the tracer once per path.
One edit (site = case-split table index, values symbolic where they need not pass a lexer) is applied to
the BridgePoint instances; mk_component runs traced; the resulting signature must equal the
BASELINE signature transformed by the same edit (metamorphic oracle, independent of mk_*), and the
SQL schema written for the component must load back to the same definitions."""
import os
import shutil
import tempfile
import xtuml
import bridgepoint
from bridgepoint import ooaofooa
from xtuml import navigate_many as many, navigate_one as one, navigate_subtype as subtype
from hlib import POST, PARAMS, cs, case, known, notrace, stub_str
from modelsig import schema_sig

stub_str()
LAST_DIFF = None
EDIT = PARAMS.get('edit', 'mult_cond')
FIXNAME = PARAMS.get('fixture', 'Simple_Model')
FIXTURE = os.path.join(os.environ.get('VERIF_ROOT', '/verif'), 'fixtures', FIXNAME + '.xtuml')
with open(FIXTURE) as f:
    TEXT = f.read()
LOADER = None


def load_bp(text=None):
    global LOADER
    if text is not None:
        l = ooaofooa.Loader()
        l.input(text)
        return l.build_metamodel()
    if LOADER is None:
        LOADER = ooaofooa.Loader()
        LOADER.input(TEXT)
    return LOADER.build_metamodel()


def sig_of(dom):
    d = schema_sig(dom)
    return d


with notrace():
    BASE = sig_of(ooaofooa.mk_component(load_bp()))
    _bp0 = load_bp()
    ATTR_SITES = [(one(a).O_OBJ[102]().Key_Lett, a.Name) for a in _bp0.select_many('O_ATTR')]
    END_SITES = []          # (kind of end instance, index within select_many)
    for kind in ('R_FORM', 'R_PART', 'R_AONE', 'R_AOTH'):
        for n, _x in enumerate(_bp0.select_many(kind)):
            END_SITES.append((kind, n))
    BASE_ATTRS = [(one(a).O_OBJ[102]().Key_Lett, a.Name) for a in _bp0.select_many('O_ATTR') if one(a).O_BATTR[106]() and not one(a).O_RATTR[106]()]
    TYPES = ['integer', 'string', 'boolean', 'real', 'unique_id'] + [n for n in ('My_Integer', 'My_Enum') if _bp0.select_any('S_DT', lambda x: x.Name == n)]
    if 'My_Integer' in TYPES:
        # user types stacked on user types: *2 = My_Integer2 on My_Integer, *3 = My_Integer3 on My_Integer2, *e2 = on a user type on My_Enum
        TYPES += ['*2', '*3', '*e2']
    HAS_CC = _bp0.select_any('C_C') is not None
    SWAP_SITES = []
    for o in _bp0.select_many('O_OBJ'):
        attrs = list(many(o).O_ATTR[102]())
        if len(attrs) >= 2:
            SWAP_SITES.append(o.Key_Lett)
NATTR, NEND, NBASE, NTYPES, NSWAP = len(ATTR_SITES), len(END_SITES), len(BASE_ATTRS), len(TYPES), len(SWAP_SITES)


def card(mu, co):
    return ('M' if mu else '1') + ('C' if co else '')


def ref_names_across(end):
    """names of the referential attributes that refer across this association end (R_RTO side)"""
    r_rto = one(end).R_RTO[204]()
    return [one(r).O_RATTR[108].O_ATTR[106]().Name for r in many(r_rto).O_RTIDA[110].O_REF[111]()]


def copy_sig(s):
    return dict(classes={k: list(v) for k, v in s['classes'].items()}, assocs=list(s['assocs']),
                identifiers={k: dict(v) for k, v in s['identifiers'].items()})


SECOND = None          # edit scripts of length two: (class, attribute) renamed AFTER the first edit, before extraction
_APPLIED = [False]


def component(bp, *args, **kwargs):
    _APPLIED[0] = False
    if SECOND is not None:
        kl2, name2 = SECOND
        with notrace():
            cand = [a for a in bp.select_many('O_ATTR') if one(a).O_OBJ[102]().Key_Lett == kl2 and a.Name == name2]
        if len(cand) == 1:
            cand[0].Name = 'Yy_' + name2
            _APPLIED[0] = True
    return ooaofooa.mk_component(bp, *args, **kwargs)


def rename_sig(exp, kl, name, new):
    ren = lambda k, n: new if (k.upper() == kl.upper() and n == name) else n
    exp['classes'] = {k: [(ren(k, n), t) for n, t in v] for k, v in exp['classes'].items()}
    exp['identifiers'] = {k: {i: frozenset(ren(k, n) for n in s) for i, s in v.items()} for k, v in exp['identifiers'].items()}
    exp['assocs'] = sorted((rel, sk, tuple(ren(sk, n) for n in skeys), sc, tp, tk, tuple(ren(tk, n) for n in tkeys), tc, sp)
                           for (rel, sk, skeys, sc, tp, tk, tkeys, tc, sp) in exp['assocs'])
    return exp


def finish(dom, exp, what):
    global LAST_DIFF
    if SECOND is not None:
        if not _APPLIED[0]:
            return None          # the first edit removed / renamed that attribute, or the path does not extract through component()
        exp = rename_sig(copy_sig(exp), SECOND[0], SECOND[1], 'Yy_' + SECOND[1])
        what = what + ', then rename %s.%s' % SECOND
    got = sig_of(dom)
    for key in ('classes', 'assocs', 'identifiers'):
        if got[key] != exp[key]:
            LAST_DIFF = ('component differs from the edited baseline in %s (%s)' % (key, what), got[key], exp[key])
            return False
    return True


def check_mult_cond(si: int, mu: int, co: int) -> bool:
    """
    pre: 0 <= si < NEND and 0 <= mu <= 1 and 0 <= co <= 1
    post: POST(_)
    """
    si = cs(si, 0, NEND - 1)
    kind, n = END_SITES[si]
    with notrace():
        bp = load_bp()
        end = list(bp.select_many(kind))[n]
    end.Mult = mu
    end.Cond = co
    dom = component(bp)
    case(EDIT, kind, n)
    exp = copy_sig(BASE)
    with notrace():
        if kind in ('R_FORM', 'R_PART'):
            r_simp = one(end).R_SIMP[208 if kind == 'R_FORM' else 207]()
            numb = 'R%d' % one(r_simp).R_REL[206]().Numb
        else:
            r_assoc = one(end).R_ASSOC[209 if kind == 'R_AONE' else 210]()
            numb = 'R%d' % one(r_assoc).R_REL[206]().Numb
            other = one(r_assoc).R_AOTH[210]() if kind == 'R_AONE' else one(r_assoc).R_AONE[209]()
            keys_other = tuple(ref_names_across(other))
    new = []
    for a in exp['assocs']:
        (rel, sk, skeys, scard, tphr, tk, tkeys, tcard, sphr) = a
        if rel == numb:
            if kind == 'R_FORM':
                scard = card(mu, co)          # the formalising (referring) end
            elif kind == 'R_PART':
                tcard = card(mu, co)          # the participating (referred) end
            elif tuple(skeys) == keys_other:
                # number of link instances per instance on the OTHER side = this side's multiplicity
                scard = card(mu, co)
        new.append((rel, sk, skeys, scard, tphr, tk, tkeys, tcard, sphr))
    exp['assocs'] = sorted(new)
    return finish(dom, exp, 'Mult/Cond of %s #%d' % (kind, n))


def check_phrase(p1: str, p2: str) -> bool:
    """
    pre: len(p1) <= 3 and len(p2) <= 3
    post: POST(_)
    """
    with notrace():
        bp = load_bp()
        aone = bp.select_one('R_AONE'); aoth = bp.select_one('R_AOTH')
        k_one = tuple(ref_names_across(aone)); k_oth = tuple(ref_names_across(aoth))
    aone.Txt_Phrs = p1
    aoth.Txt_Phrs = p2
    dom = component(bp)
    case(EDIT)
    exp = copy_sig(BASE)
    new = []
    for a in exp['assocs']:
        (rel, sk, skeys, scard, tphr, tk, tkeys, tcard, sphr) = a
        if rel == 'R1':
            # navigating from the link class towards a side uses that side's phrase
            if tuple(skeys) == k_one:
                tphr, sphr = p1, p2
            elif tuple(skeys) == k_oth:
                tphr, sphr = p2, p1
        new.append((rel, sk, skeys, scard, tphr, tk, tkeys, tcard, sphr))
    got = sig_of(dom)
    global LAST_DIFF
    if len(got['assocs']) != len(new):
        LAST_DIFF = ('number of associations',); return False
    for g in got['assocs']:
        if not any(all(x == y for x, y in zip(g, e)) for e in new):
            LAST_DIFF = ('association with unexpected phrases', repr(g)); return False
    return got['classes'] == exp['classes'] and got['identifiers'] == exp['identifiers']


def check_rename(si: int) -> bool:
    """
    pre: 0 <= si < NATTR
    post: POST(_)
    """
    si = cs(si, 0, NATTR - 1)
    kl, name = ATTR_SITES[si]
    with notrace():
        bp = load_bp()
        attr = [a for a in bp.select_many('O_ATTR') if one(a).O_OBJ[102]().Key_Lett == kl and a.Name == name][0]
    attr.Name = 'Zz_' + name
    dom = component(bp)
    case(EDIT, kl, name)
    new = 'Zz_' + name
    exp = copy_sig(BASE)
    ren = lambda k, n: new if (k.upper() == kl.upper() and n == name) else n
    exp['classes'] = {k: [(ren(k, n), t) for n, t in v] for k, v in exp['classes'].items()}
    exp['identifiers'] = {k: {i: frozenset(ren(k, n) for n in s) for i, s in v.items()} for k, v in exp['identifiers'].items()}
    exp['assocs'] = sorted((rel, sk, tuple(ren(sk, n) for n in skeys), sc, tp, tk, tuple(ren(tk, n) for n in tkeys), tc, sp)
                           for (rel, sk, skeys, sc, tp, tk, tkeys, tc, sp) in exp['assocs'])
    return finish(dom, exp, 'rename %s.%s' % (kl, name))


def refers_to(bp, kl, name):
    """(class, attribute) pairs whose type derives from the base attribute kl.name (R113 chains)"""
    out = set([(kl, name)])
    changed = True
    while changed:
        changed = False
        for a in bp.select_many('O_ATTR'):
            key = (one(a).O_OBJ[102]().Key_Lett, a.Name)
            if key in out:
                continue
            b = one(a).O_RATTR[106].O_BATTR[113].O_ATTR[106]()
            if b is not None and (one(b).O_OBJ[102]().Key_Lett, b.Name) in out:
                out.add(key); changed = True
    return out


def check_retype(bi: int, ti: int) -> bool:
    """
    pre: 0 <= bi < NBASE and 0 <= ti < NTYPES
    post: POST(_)
    """
    bi = cs(bi, 0, NBASE - 1); ti = cs(ti, 0, NTYPES - 1)
    kl, name = BASE_ATTRS[bi]
    with notrace():
        bp = load_bp()
        attr = [a for a in bp.select_many('O_ATTR') if one(a).O_OBJ[102]().Key_Lett == kl and a.Name == name][0]
        if TYPES[ti].startswith('*'):
            proto = bp.select_one('S_DT', lambda s: s.Name == 'My_Integer')
            pkg = one(proto).PE_PE[8001].EP_PKG[8000]()

            def stack(nm, base):
                dt = bp.new('S_DT', Name=nm)
                pe = bp.new('PE_PE')
                xtuml.relate(dt, pe, 8001); xtuml.relate(pe, pkg, 8000)
                u = bp.new('S_UDT')
                xtuml.relate(u, dt, 17); xtuml.relate(u, base, 18)
                return dt
            if TYPES[ti] == '*e2':
                new_dt = stack('My_Enum3', stack('My_Enum2', bp.select_one('S_DT', lambda s: s.Name == 'My_Enum')))
            else:
                new_dt = stack('My_Integer2', proto)
                if TYPES[ti] == '*3':
                    new_dt = stack('My_Integer3', new_dt)
        else:
            new_dt = bp.select_one('S_DT', lambda s: s.Name == TYPES[ti])
        xtuml.unrelate(attr, one(attr).S_DT[114](), 114)
        xtuml.relate(attr, new_dt, 114)
        affected = refers_to(bp, kl, name)
    dom = component(bp)
    case(EDIT, kl, name, TYPES[ti])
    core = 'INTEGER' if (one(new_dt).S_EDT[17]() or TYPES[ti] in ('My_Integer', '*2', '*3', '*e2')) else TYPES[ti].upper()
    exp = copy_sig(BASE)
    exp['classes'] = {k: [(n, core if any(k == c.upper() and n == a for c, a in affected) else t) for n, t in v]
                      for k, v in exp['classes'].items()}
    return finish(dom, exp, 'retype %s.%s to %s' % (kl, name, TYPES[ti]))


def check_reorder(si: int) -> bool:
    """
    pre: 0 <= si < NSWAP
    post: POST(_)
    """
    si = cs(si, 0, NSWAP - 1)
    kl = SWAP_SITES[si]
    with notrace():
        bp = load_bp()
        o = bp.select_one('O_OBJ', lambda s: s.Key_Lett == kl)
        first = one(o).O_ATTR[102](lambda sel: not one(sel).O_ATTR[103, 'succeeds']())
        second = one(first).O_ATTR[103, 'precedes']()
        third = one(second).O_ATTR[103, 'precedes']()
        # first <-> second : second becomes the head of the R103 chain
        xtuml.unrelate(first, second, 103, 'precedes')
        if third is not None:
            xtuml.unrelate(second, third, 103, 'precedes')
        xtuml.relate(second, first, 103, 'precedes')
        if third is not None:
            xtuml.relate(first, third, 103, 'precedes')
        n1, n2 = first.Name, second.Name
    dom = component(bp)
    case(EDIT, kl)
    exp = copy_sig(BASE)
    lst = exp['classes'][kl.upper()]
    names = [n for n, _ in lst]
    if n1 in names and n2 in names:          # a derived attribute is not part of the class (no derived attributes requested)
        i1 = names.index(n1); i2 = names.index(n2)
        lst[i1], lst[i2] = lst[i2], lst[i1]
    return finish(dom, exp, 'swap the first two attributes of %s' % kl)


def check_identifier(si: int) -> bool:
    """
    pre: 0 <= si < NATTR
    post: POST(_)
    """
    # put attribute si into its class's second identifier
    si = cs(si, 0, NATTR - 1)
    kl, name = ATTR_SITES[si]
    with notrace():
        bp = load_bp()
        attr = [a for a in bp.select_many('O_ATTR') if one(a).O_OBJ[102]().Key_Lett == kl and a.Name == name][0]
        o = one(attr).O_OBJ[102]()
        o_id = one(o).O_ID[104](lambda s: s.Oid_ID == 1)
        oida = bp.new('O_OIDA', localAttributeName=name)
        xtuml.relate(oida, attr, 105); xtuml.relate(oida, o_id, 105)
    dom = component(bp)
    case(EDIT, kl, name)
    exp = copy_sig(BASE)
    with notrace():
        derived = one(attr).O_BATTR[106].O_DBATTR[107]() is not None
    if not derived:                          # an identifier on a derived attribute is left out together with the attribute
        exp['identifiers'][kl.upper()]['I2'] = frozenset([name])
    return finish(dom, exp, 'identifier I2 of %s on %s' % (kl, name))


def golden():
    import json
    with open(FIXTURE.replace('.xtuml', '.expected.json')) as f:
        g = json.load(f)
    return dict(classes={k: [tuple(x) for x in v] for k, v in g['classes'].items()},
                assocs=sorted(tuple(tuple(x) if isinstance(x, list) else x for x in a) for a in g['assocs']),
                identifiers={k: {i: frozenset(v) for i, v in d.items()} for k, d in g['identifiers'].items()})


def check_variants(which: int) -> bool:
    """
    pre: 0 <= which < 8
    post: POST(_)
    """
    # whole model vs named component, with/without derived attributes, permuted rows, SQL round trip
    global LAST_DIFF
    which = cs(which, 0, 7)
    if which in (1, 3) and not HAS_CC:
        return None
    with notrace():
        if which in (4, 5, 6):
            l = xtuml.ModelLoader(); l.input(TEXT)
            offs = sorted(st.offset for st in l.statements) + [len(TEXT)]
            st = [TEXT[a:b] for a, b in zip(offs, offs[1:])]
            st = st[::-1] if which == 4 else (st[len(st) // 3:] + st[:len(st) // 3] if which == 5 else sorted(st))
            bp = load_bp(''.join(st))
        else:
            bp = load_bp()
    if which == 1:
        dom = component(bp, bp.select_one('C_C'))
    elif which == 2:
        dom = component(bp, None, True)
    elif which == 3:
        l = ooaofooa.Loader(); l.statements = list(LOADER.statements)
        dom = l.build_component(bp.select_one('C_C').Name)
    else:
        dom = component(bp)
    case(EDIT, which)
    exp = copy_sig(BASE)
    if which == 2:
        # with derived attributes: they appear at their place in the modelled attribute order (R103)
        with notrace():
            for o in bp.select_many('O_OBJ'):
                names = []
                a = one(o).O_ATTR[102](lambda sel: not one(sel).O_ATTR[103, 'succeeds']())
                while a:
                    names.append((a.Name, one(a).O_BATTR[106].O_DBATTR[107]() is not None, one(a).S_DT[114]().Name.upper()))
                    a = one(a).O_ATTR[103, 'precedes']()
                base = dict(exp['classes'][o.Key_Lett.upper()])
                exp['classes'][o.Key_Lett.upper()] = [(n, t if d else base[n]) for n, d, t in names if d or n in base]
    if not finish(dom, exp, 'variant %d' % which):
        return False
    if which == 0 and not finish(dom, golden(), 'reviewed expected signature of the fixture (fixtures/Simple_Model.expected.json)'):
        return False
    if which == 7:
        with notrace():
            d = tempfile.mkdtemp(prefix='c14_')
            try:
                p = os.path.join(d, 'schema.sql')
                xtuml.persist_database(dom, p)          # what gen_sql_schema writes
                l = xtuml.ModelLoader(); l.filename_input(p)
                back = schema_sig(l.build_metamodel())
                # a class that ends up WITHOUT attributes (all of its attributes are derived and derived attributes were
                # not asked for) is still a class of the component: the written schema must define it
                dom.define_class('Zz_Gauge', [])
                p2 = os.path.join(d, 'schema2.sql')
                xtuml.persist_database(dom, p2)
                l2 = xtuml.ModelLoader(); l2.filename_input(p2)
                back2 = schema_sig(l2.build_metamodel())
            finally:
                shutil.rmtree(d, ignore_errors=True)
        if back != exp and back != BASE:
            LAST_DIFF = ('schema written for the component does not load back', back, BASE); return False
        if back2['classes'].get('ZZ_GAUGE') != [] or {k: v for k, v in back2['classes'].items() if k != 'ZZ_GAUGE'} != back['classes']:
            LAST_DIFF = ('a class without attributes is missing from the written schema', sorted(back2['classes'])); return False
    return True


with notrace():
    _bp1 = load_bp()
    MOVABLE = [('O_OBJ', n) for n, _ in enumerate(_bp1.select_many('O_OBJ'))] + [('R_REL', n) for n, _ in enumerate(_bp1.select_many('R_REL'))]
NMOV = len(MOVABLE)


def check_nested(mi: int, how: int) -> bool:
    """
    pre: 0 <= mi < NMOV and 0 <= how < 2
    post: POST(_)
    """
    # restricting to a component: a class / an association moved into a package of a component NESTED in the
    # component is still contained in it, so the component (and the whole model) is extracted unchanged
    global LAST_DIFF
    if not HAS_CC:
        return None
    mi = cs(mi, 0, NMOV - 1); how = cs(how, 0, 1)
    kind, n = MOVABLE[mi]
    with notrace():
        bp = load_bp()
        inst = list(bp.select_many(kind))[n]
        pe = one(inst).PE_PE[8001]()
        home = one(pe).EP_PKG[8000]()
        if home is None:
            return None
        outer = bp.select_one('C_C')
        c_c = bp.new('C_C', Name='Inner', Mult=0, isRealized=False)
        pe_c = bp.new('PE_PE', Visibility=1, type=2)
        xtuml.relate(c_c, pe_c, 8001); xtuml.relate(pe_c, home, 8000)
        pkg = bp.new('EP_PKG', Name='P')
        pe_p = bp.new('PE_PE', Visibility=1, type=7)
        xtuml.relate(pkg, pe_p, 8001); xtuml.relate(pe_p, c_c, 8003)
        xtuml.unrelate(pe, home, 8000); xtuml.relate(pe, pkg, 8000)
    if how == 0:
        dom = component(bp, outer)
    else:
        dom = component(bp)
    case(EDIT, kind, n, how)
    return finish(dom, copy_sig(BASE), 'moved %s #%d into a nested component (variant %d)' % (kind, n, how))


def _second(si2, fn, *args):
    global SECOND
    SECOND = ATTR_SITES[cs(si2, 0, NATTR - 1)]
    try:
        return fn(*args)
    finally:
        SECOND = None


def check_mult_cond2(si: int, mu: int, co: int, si2: int) -> bool:
    """
    pre: 0 <= si < NEND and 0 <= mu <= 1 and 0 <= co <= 1 and 0 <= si2 < NATTR
    post: POST(_)
    """
    return _second(si2, check_mult_cond, si, mu, co)


def check_retype2(bi: int, ti: int, si2: int) -> bool:
    """
    pre: 0 <= bi < NBASE and 0 <= ti < NTYPES and 0 <= si2 < NATTR
    post: POST(_)
    """
    return _second(si2, check_retype, bi, ti)


def check_reorder2(si: int, si2: int) -> bool:
    """
    pre: 0 <= si < NSWAP and 0 <= si2 < NATTR
    post: POST(_)
    """
    return _second(si2, check_reorder, si)


def check_identifier2(si: int, si2: int) -> bool:
    """
    pre: 0 <= si < NATTR and 0 <= si2 < NATTR
    post: POST(_)
    """
    return _second(si2, check_identifier, si)
