"""C13 (unit level, symbolic-through): the position bookkeeping of bridgepoint/oal.py.

The source text, the token offsets and the line numbers are SYMBOLIC; the real functions
find_column / set_positional_info / track_production / p_error / t_error and every t_* token rule
are executed by CrossHair on real ply.yacc.YaccProduction / YaccSymbol / LexToken objects (PLY's own
driver loop is the trusted environment: it is replaced by its contract "symbol i covers
text[s_i:e_i], starts on line l_i", nothing more)."""
import ply.lex as lex
import ply.yacc as yacc
from bridgepoint import oal
from hlib import POST, PARAMS, cs, case

LAST_DIFF = None
MAXLEN = int(PARAMS.get('maxlen', 5))
TOKEN_RULES = [n for n in sorted(vars(oal.OALParser)) if n.startswith('t_') and n not in ('t_error', 't_ignore')
               and callable(getattr(oal.OALParser, n))]
_SH, _NSH = int(PARAMS.get('shard', 0)), int(PARAMS.get('nshards', 1))
TOKEN_RULES = ['t_ID'] if PARAMS.get('only_id') else [r for r in TOKEN_RULES if r != 't_ID'][_SH::_NSH]
NRULES = len(TOKEN_RULES)
ILLEGAL = ['@', '$', chr(92), chr(0), chr(233), chr(0x2028), "'", '"', '%', '{', '!', '`', '~', '#',
           chr(12), chr(11), chr(0xa0), chr(0x85), chr(0x2003), chr(0x1c)]     # characters str.split() regards as white space but the scanner does not
NUMS = [1, 9, 10, 12345]   # numbers that only end up in messages are taken from a pool (formatting forks per digit)


class _Lexer(object):
    lexdata = ''
    label = '<x>'
    lineno = 1
    lexpos = 0
    skipped = 0

    def skip(self, n):
        self.skipped += n
        self.lexpos += n


def _column(text, pos):
    """1-based column of offset pos, counted directly"""
    col = 1
    i = pos - 1
    while i >= 0 and text[i] != '\n':
        col += 1
        i -= 1
    return col


def _sym(kind, value, s, e, l, el):
    y = yacc.YaccSymbol()
    y.type = kind
    y.value = value
    y.lexpos = s
    y.endlexpos = e
    y.lineno = l
    y.endlineno = el
    return y


def check_info(text: str, n: int, s1: int, e1: int, s2: int, e2: int, s3: int, e3: int,
               l1: int, l2: int, l3: int, m1: int, m2: int, m3: int, how: int) -> bool:
    """
    pre: len(text) <= MAXLEN and 1 <= n <= 3 and 0 <= how <= 1
    pre: 0 <= s1 < e1 <= s2 < e2 <= s3 < e3 <= len(text)
    pre: 1 <= l1 <= m1 <= l2 <= m2 <= l3 <= m3
    post: POST(_)
    """
    global LAST_DIFF
    n = cs(n, 1, 3); how = cs(how, 0, 1)
    spans = [(s1, e1, l1, m1), (s2, e2, l2, m2), (s3, e3, l3, m3)][:n]
    lexer = _Lexer(); lexer.lexdata = text; lexer.label = 'lbl'
    node = oal.IntegerNode('1')
    syms = [_sym('lhs', None, 0, 0, 0, 0)] + [_sym('X%d' % i, 'v%d' % i, s, e, l, m) for i, (s, e, l, m) in enumerate(spans)]
    p = yacc.YaccProduction(syms, [])
    p.lexer = lexer
    if how == 0:
        oal.set_positional_info(node, p)
    else:
        class Holder(object):
            @oal.track_production
            def prod(self, q):
                q[0] = node
                return 'ret'
        if Holder().prod(p) != 'ret':
            LAST_DIFF = 'track_production drops the return value'; return False
    case('info', n, how)
    a, b = spans[0][0], spans[-1][1]
    if text[b - 1] == '\n':
        return None  # outside PLY's contract here: no token handed to the parser ends in a line break
    pos = getattr(node, 'position', None)
    if pos is None:
        LAST_DIFF = 'no position recorded'; return False
    exp = dict(start_stream=a, end_stream=b, start_line=spans[0][2], end_line=spans[-1][3],
               start_column=_column(text, a), end_column=_column(text, b - 1), label='lbl')
    for k, v in exp.items():
        got = getattr(pos, k)
        if got != v:
            LAST_DIFF = (k, 'expected', v, 'got', got); return False
    if node.character_stream != text[a:b]:
        LAST_DIFF = ('character_stream', node.character_stream, text[a:b]); return False
    return True


def check_track(kind: int, n: int, s1: int, e1: int) -> bool:
    """
    pre: 0 <= kind <= 3 and 0 <= n <= 1 and 0 <= s1 < e1 <= 4
    post: POST(_)
    """
    # the decorator positions exactly the Node results of non-empty productions and nothing else
    global LAST_DIFF
    kind = cs(kind, 0, 3); n = cs(n, 0, 1)
    value = [oal.IntegerNode('1'), 'text', None, oal.StatementListNode()][kind]
    lexer = _Lexer(); lexer.lexdata = 'abcd'
    syms = [_sym('lhs', None, 0, 0, 0, 0)] + ([_sym('X', 'v', s1, e1, 1, 1)] if n else [])
    p = yacc.YaccProduction(syms, [])
    p.lexer = lexer

    class Holder(object):
        @oal.track_production
        def prod(self, q):
            q[0] = value
    Holder().prod(p)
    case('track', kind, n)
    if p[0] is not value:
        LAST_DIFF = 'result replaced'; return False
    if isinstance(value, oal.Node):
        has = getattr(value, 'position', None) is not None
        if has != (n == 1):
            LAST_DIFF = ('node positioned' if has else 'node not positioned', 'symbols', n); return False
        if has and (value.position.start_stream != s1 or value.position.end_stream != e1 or value.character_stream != 'abcd'[s1:e1]):
            LAST_DIFF = 'span'; return False
    return True


def check_p_error(kind: int, ty: str, line: int, lexpos: int, text: str) -> bool:
    """
    pre: 0 <= kind <= 1 and len(ty) <= 3 and len(text) <= 4 and 0 <= lexpos <= len(text) and 0 <= line <= 3
    post: POST(_)
    """
    # a syntax error surfaces as the OAL parse exception, whatever the offending token
    global LAST_DIFF
    kind = cs(kind, 0, 1)
    tok = None
    line = NUMS[cs(line, 0, 3)]
    if kind:
        tok = lex.LexToken(); tok.type = ty; tok.value = ty; tok.lineno = line; tok.lexpos = lexpos
        tok.lexer = _Lexer(); tok.lexer.lexdata = text
    case('p_error', kind)
    try:
        oal.OALParser.p_error(None, tok)
    except oal.ParseException:
        return True
    except Exception as e:  # noqa
        LAST_DIFF = ('p_error raises', type(e).__name__); return False
    LAST_DIFF = 'p_error returns'
    return False


def check_t_error(ci: int, rest: int, line: int, lexpos: int) -> bool:
    """
    pre: 0 <= ci < len(ILLEGAL) and 0 <= rest <= 4 and 0 <= lexpos <= 3 and 0 <= line <= 3
    post: POST(_)
    """
    # an illegal character is skipped: the scanner position advances, nothing is raised
    # (the character only ends up in a log message, which realises it: taken from a pool)
    global LAST_DIFF
    line = NUMS[cs(line, 0, 3)]; lexpos = NUMS[cs(lexpos, 0, 3)]
    value = ILLEGAL[cs(ci, 0, len(ILLEGAL) - 1)] + ['', 'x', 'x;', ' ', chr(10) + ' '][cs(rest, 0, 4)]
    tok = lex.LexToken(); tok.type = 'error'; tok.value = value; tok.lineno = line; tok.lexpos = lexpos
    tok.lexer = _Lexer(); tok.lexer.lexpos = lexpos
    try:
        oal.OALParser.t_error(None, tok)
    except Exception as e:  # noqa
        LAST_DIFF = ('t_error raises', type(e).__name__); return False
    case('t_error', value)
    if not (1 <= tok.lexer.skipped <= len(value)):
        LAST_DIFF = ('skipped', tok.lexer.skipped); return False
    return True


class _Self(object):
    keywords = oal.OALParser.keywords


def check_token(rule: int, value: str, lexpos: int, line: int) -> bool:
    """
    pre: 0 <= rule < NRULES and 1 <= len(value) <= MAXLEN and lexpos >= 0 and line >= 1
    post: POST(_)
    """
    # every token rule records the offset just behind the matched text and keeps the text
    global LAST_DIFF
    rule = cs(rule, 0, NRULES - 1)
    name = TOKEN_RULES[rule]
    tok = lex.LexToken(); tok.type = name[2:]; tok.value = value; tok.lineno = line; tok.lexpos = lexpos
    tok.lexer = _Lexer(); tok.lexer.lineno = line; tok.lexer.lexpos = lexpos + len(value)
    r = getattr(oal.OALParser, name)(_Self(), tok)
    case('token', name)
    if getattr(tok, 'endlexpos', None) != lexpos + len(value):
        LAST_DIFF = (name, 'endlexpos', getattr(tok, 'endlexpos', None), 'expected', lexpos + len(value)); return False
    if tok.lexpos != lexpos or tok.lineno != line:
        LAST_DIFF = (name, 'token start moved'); return False
    d = tok.lexer.lineno - line
    nl = 0
    for ch in value:
        if ch == '\n':
            nl += 1
    if d != 0 and d != nl and not (name == 't_newline' and d == len(value)):
        LAST_DIFF = (name, 'line counter advanced by', d, 'line breaks', nl); return False
    return True
