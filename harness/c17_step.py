"""C17 inductive step: arbitrary ordered set state (a duplicate-free sequence) + ONE operation,
compared with a list model through every observer.  The element universe is small because set
elements are hashed (hashing realises a symbolic value); every selector is case-split."""
import xtuml
from xtuml.tools import OrderedSet
from xtuml.meta import QuerySet
from hlib import POST, PARAMS, cs, case

OP = PARAMS.get('op', 'add')
CLS = PARAMS.get('cls', 'OrderedSet')
OTYPE = PARAMS.get('otype', 'OrderedSet')
U = PARAMS.get('U', 4)
NX = PARAMS.get('nx', None)        # fixed length of xs for this condition (None = any <= MAXN)
MAXN = PARAMS.get('maxn', 4)
MAXM = PARAMS.get('maxm', 3)
LAST_DIFF = None


import itertools


# element universe: small ints, optionally with None / a string / a tuple as elements (any hashable
# value is a legitimate set element; None in particular must not be confused with a sentinel)
EL = {'ints': list(range(U)), 'none': [0, None, 2, 'x'][:U] + list(range(4, U)), 'mixed': [None, (), '', 0][:U] + list(range(4, U))}[PARAMS.get('elems', 'ints')]


def seqs(maxlen, only=None):
    out = []
    for n in range(maxlen + 1):
        if only is not None and n != only:
            continue
        out.extend([EL[i] for i in p] for p in itertools.permutations(range(U), n))
    return out


XS = seqs(MAXN, NX)       # all duplicate-free sequences the first operand ranges over
YS = seqs(MAXM)
if PARAMS.get('dups'):
    # operands that list an element more than once (only meaningful for list / tuple / generator operands)
    YS = [list(p) for n in (2, 3) for p in itertools.product(EL[:3], repeat=n) if len(set(map(repr, p))) < n]
NXS = len(XS)
NYS = len(YS)


def observe(s):
    fwd = list(s)
    d = dict(fwd=fwd, rev=list(reversed(s)), n=len(s), mem=[(e in s) for e in EL])
    if isinstance(s, QuerySet):
        d['first'] = s.first
        d['last'] = s.last
    return d


def expect(m, isq):
    d = dict(fwd=list(m), rev=list(m)[::-1], n=len(m), mem=[(e in m) for e in EL])
    if isq:
        d['first'] = m[0] if m else None
        d['last'] = m[-1] if m else None
    return d


def mk_other(ys, s):
    if OTYPE == 'self':
        return s
    if OTYPE == 'list':
        return list(ys)
    if OTYPE == 'tuple':
        return tuple(ys)
    if OTYPE == 'QuerySet':
        return QuerySet(ys)
    if OTYPE == 'generator':
        return (y for y in ys)
    return OrderedSet(ys)


def check_nullary(cx: int) -> bool:
    """
    pre: 0 <= cx < NXS
    post: POST(_)
    """
    return _run(list(XS[cs(cx, 0, NXS - 1)]), [], 0, 0)


def check_unary(cx: int, k: int) -> bool:
    """
    pre: 0 <= cx < NXS and 0 <= k < U
    post: POST(_)
    """
    return _run(list(XS[cs(cx, 0, NXS - 1)]), [], EL[cs(k, 0, U - 1)], 0)


def check_iter(cx: int, mask: int) -> bool:
    """
    pre: 0 <= cx < NXS and 0 <= mask < 2 ** U
    post: POST(_)
    """
    return _run(list(XS[cs(cx, 0, NXS - 1)]), [], 0, cs(mask, 0, 2 ** U - 1))


def check_binary(cx: int, cy: int) -> bool:
    """
    pre: 0 <= cx < NXS and 0 <= cy < NYS
    post: POST(_)
    """
    return _run(list(XS[cs(cx, 0, NXS - 1)]), list(YS[cs(cy, 0, NYS - 1)]), 0, 0)


def check_self(cx: int) -> bool:
    """
    pre: 0 <= cx < NXS
    post: POST(_)
    """
    xs = list(XS[cs(cx, 0, NXS - 1)])
    return _run(xs, list(xs), 0, 0)


def _run(xs, ys, k, mask):
    global LAST_DIFF
    binary = OP in ('ior', 'iand', 'isub', 'ixor', 'or', 'and', 'sub', 'xor', 'eq', 'ne', 'ctor')
    cls = QuerySet if CLS == 'QuerySet' else OrderedSet
    isq = cls is QuerySet
    s = cls(xs)
    model = list(xs)
    other = mk_other(ys, s) if binary else None
    res = None
    exp_res = None
    exc = None
    exp_exc = None
    result_set = None          # for non-in-place algebra: (result object, expected element set)
    try:
        if OP == 'add':
            s.add(k)
            if k not in model: model.append(k)
        elif OP == 'discard':
            s.discard(k)
            if k in model: model.remove(k)
        elif OP == 'remove':
            if k in model: model.remove(k)
            else: exp_exc = KeyError
            s.remove(k)
        elif OP == 'pop_last':
            if model: exp_res = model.pop()
            else: exp_exc = KeyError
            res = s.pop()
        elif OP == 'pop_first':
            if model: exp_res = model.pop(0)
            else: exp_exc = KeyError
            res = s.pop(last=False)
        elif OP == 'clear':
            s.clear(); model = []
        elif OP == 'ior':
            s |= other
            for y in ys:
                if y not in model: model.append(y)
        elif OP == 'iand':
            s &= other
            model = [x for x in model if x in ys]
        elif OP == 'isub':
            s -= other
            model = [x for x in model if x not in ys]
        elif OP == 'ixor':
            s ^= other
            keep = [x for x in model if x not in ys]
            fresh = []
            for y in ys:
                if y not in xs and y not in fresh:
                    fresh.append(y)          # an operand that lists an element twice still denotes a set
            model = keep + fresh
        elif OP == 'or':
            result_set = (s | other, set(xs) | set(ys))
        elif OP == 'and':
            result_set = (s & other, set(xs) & set(ys))
        elif OP == 'sub':
            result_set = (s - other, set(xs) - set(ys))
        elif OP == 'xor':
            result_set = (s ^ other, set(xs) ^ set(ys))
        elif OP == 'eq':
            res = (s == other); exp_res = (xs == ys)
            if PARAMS.get('dups'):
                res = exp_res = None      # equality with a sequence that is not duplicate-free is not constrained
        elif OP == 'ne':
            res = (s != other); exp_res = (xs != ys)
            if PARAMS.get('dups'):
                res = exp_res = None
        elif OP == 'ctor':
            # construction from another collection keeps first-insertion order
            s = cls(other); model = []
            for y in ys:
                if y not in model:
                    model.append(y)
        elif OP == 'iter_remove':
            visited = []
            for e in s:
                visited.append(e)
                if (mask >> EL.index(e)) & 1:
                    s.remove(e)
            res = visited; exp_res = list(xs)
            model = [x for x in xs if not (mask >> EL.index(x)) & 1]
        elif OP == 'iter_discard_rev':
            visited = []
            for e in reversed(s):
                visited.append(e)
                if (mask >> EL.index(e)) & 1:
                    s.discard(e)
            res = visited; exp_res = list(xs)[::-1]
            model = [x for x in xs if not (mask >> EL.index(x)) & 1]
        else:
            raise AssertionError('unknown op ' + OP)
    except KeyError:
        exc = KeyError
    case(OP, CLS, OTYPE, xs, ys, k, mask)
    if exc is not exp_exc:
        LAST_DIFF = ('exception', exc, exp_exc); return False
    if exc is not None:
        model = list(xs)                # a rejected call leaves the set as it was
    if exc is None and res != exp_res:
        LAST_DIFF = ('result', res, exp_res); return False
    got, exp = observe(s), expect(model, isq)
    if got != exp:
        LAST_DIFF = ('state', got, exp); return False
    if result_set is not None:
        r, eset = result_set
        rl = list(r)
        if set(rl) != eset or len(rl) != len(eset) or list(reversed(r)) != rl[::-1] or len(r) != len(eset):
            LAST_DIFF = ('algebra result', rl, list(eset)); return False
        if [(e in r) for e in EL] != [(e in eset) for e in EL]:
            LAST_DIFF = ('algebra membership', rl, list(eset)); return False
        # the result is a set of its own: changing it afterwards must not change an operand, and changing the left
        # operand must not change the result (a result that IS an operand - e.g. a shortcut for an empty operand - would
        # make a set hold elements that were never added to it)
        if hasattr(r, 'add') and hasattr(r, 'discard'):
            s_before = list(s)
            fresh = [e for e in EL if e not in eset]
            if fresh:
                r.add(fresh[0])
            if rl:
                r.discard(rl[0])
            if list(s) != s_before:
                LAST_DIFF = ('changing the result of a non-in-place operation changed the left operand', s_before, list(s)); return False
            if OTYPE in ('OrderedSet', 'QuerySet', 'list') and list(other) != ys:
                LAST_DIFF = ('changing the result of a non-in-place operation changed the right operand', ys, list(other)); return False
            r_before = list(r)
            grow = [e for e in EL if e not in s]
            if grow:
                s.add(grow[0])
            if len(s) > 0:
                s.pop()
            if len(s) > 0:
                s.pop(last=False)
            if list(r) != r_before:
                LAST_DIFF = ('changing the left operand afterwards changed the result of a non-in-place operation', r_before, list(r)); return False
            return True
    if binary and OTYPE not in ('self', 'generator') and OP != 'ctor':
        if list(other) != ys:
            LAST_DIFF = ('operand modified', list(other), ys); return False
    return True
