"""C09 (queries): select_many / select_one / select_any with every sequence of up to L query
operators over a population whose attribute values are symbolic-through (unbounded ints, so every
order and tie pattern of the sort keys is a solver-decided branch)."""
import itertools
import xtuml
from xtuml import where_eq, order_by, reverse_order_by
from hlib import POST, PARAMS, cs, csb, case, notrace, stub_str

stub_str()
NI = PARAMS.get('ni', 3)
L = PARAMS.get('len', 2)
FIRST = PARAMS.get('first', None)      # fix the first operator (parallel split)
LAST_DIFF = None
OPS = ['eq_x', 'eq_xy', 'dict_y', 'lam_x_gt', 'ord_x', 'ord_xy', 'rev_x', 'rev_yx', 'eq_ref', 'lam_b', 'eq_ref_none']
SEQS = [()] if FIRST is None else []
for n in range(1, L + 1):
    for seq in itertools.product(range(len(OPS)), repeat=n):
        if FIRST is None or seq[0] == FIRST:
            SEQS.append(seq)
if FIRST is not None and L == 0:
    SEQS = [()]
if PARAMS.get('part') is not None:       # further parallel split of a heavy (first operator, length) cell
    SEQS = SEQS[PARAMS['part']::PARAMS.get('nparts', 1)]
NSEQ = len(SEQS)


def mk():
    m = xtuml.MetaModel(xtuml.IntegerGenerator())
    m.define_class('P', [('Id', 'unique_id')])
    m.define_class('A', [('Id', 'unique_id'), ('x', 'integer'), ('y', 'integer'), ('b', 'boolean'),
                         ('P_Id', 'unique_id')])
    ass = m.define_association(1, 'A', ['P_Id'], True, True, '', 'P', ['Id'], False, True, '')
    ass.formalize()
    return m


def stable_sort(items, keyf, reverse):
    """insertion sort, stable; descending keeps the original order of ties as well"""
    out = []
    for it in items:
        k = keyf(it)
        pos = len(out)
        for n, o in enumerate(out):
            ko = keyf(o)
            if (k > ko) if reverse else (k < ko):
                pos = n
                break
        out.insert(pos, it)
    return out


PLFREE = PARAMS.get('plfree', False)


def check(si: int, dead: int, pl: int, x0: int, x1: int, x2: int, x3: int, y0: int, y1: int, y2: int,
          y3: int, b0: bool, b1: bool, b2: bool, b3: bool, k1: int, k2: int, thr: int, pv: int) -> bool:
    """
    pre: 0 <= si < NSEQ and 0 <= dead <= NI and 0 <= pl < 2 ** NI and pv > 0
    pre: PLFREE or (pl == 5 and (dead == 0 or dead == 2))
    post: POST(_)
    """
    global LAST_DIFF
    seq = SEQS[cs(si, 0, NSEQ - 1)]
    dead = cs(dead, 0, NI); pl = cs(pl, 0, 2 ** NI - 1)
    xs = [x0, x1, x2, x3][:NI]; ys = [y0, y1, y2, y3][:NI]; bs = [b0, b1, b2, b3][:NI]
    with notrace():
        m = mk()
        p = m.new('P')
    p.Id = pv
    insts = []
    for n in range(NI):
        with notrace():
            a = m.new('A')
        a.x = xs[n]; a.y = ys[n]; a.b = bs[n]
        insts.append(a)
    with notrace():
        for n in range(NI):
            if (pl >> n) & 1:
                xtuml.relate(insts[n], p, 1)
        livei = [n for n in range(NI) if n != dead - 1]
        if dead:
            xtuml.delete(insts[dead - 1])
    ops = []
    exp = [insts[n] for n in livei]
    for o in seq:
        name = OPS[o]
        if name == 'eq_x':
            ops.append(where_eq(x=k1)); exp = [i for i in exp if i.x == k1]
        elif name == 'eq_xy':
            ops.append(where_eq(X=k1, y=k2)); exp = [i for i in exp if i.x == k1 and i.y == k2]
        elif name == 'dict_y':
            ops.append({'y': k2}); exp = [i for i in exp if i.y == k2]
        elif name == 'lam_x_gt':
            ops.append(lambda sel: sel.x > thr); exp = [i for i in exp if i.x > thr]
        elif name == 'lam_b':
            ops.append(lambda sel: sel.b); exp = [i for i in exp if i.b]
        elif name == 'eq_ref':
            # equality filter on a referential attribute: reads the linked instance's identifier
            ops.append(where_eq(P_Id=k1))
            exp = [i for i in exp if ((pl >> insts.index(i)) & 1) and pv == k1]
        elif name == 'eq_ref_none':
            # equality filter with the value None: the instances whose referential attribute is unset (unlinked)
            ops.append(where_eq(P_Id=None, x=k1) if len(seq) > 1 else where_eq(P_Id=None))
            exp = [i for i in exp if not ((pl >> insts.index(i)) & 1) and (len(seq) == 1 or i.x == k1)]
        elif name == 'ord_x':
            ops.append(order_by('x')); exp = stable_sort(exp, lambda i: [i.x], False)
        elif name == 'ord_xy':
            ops.append(order_by('x', 'y')); exp = stable_sort(exp, lambda i: [i.x, i.y], False)
        elif name == 'rev_x':
            ops.append(reverse_order_by('x')); exp = stable_sort(exp, lambda i: [i.x], True)
        elif name == 'rev_yx':
            ops.append(reverse_order_by('y', 'x')); exp = stable_sort(exp, lambda i: [i.y, i.x], True)
    got = m.select_many('A', *ops)
    one = m.select_one('A', *ops)
    any_ = m.select_any('a', *ops)
    gl = list(got)
    case('query', [OPS[o] for o in seq], dead, pl)
    if len(gl) != len(exp) or any(a is not b for a, b in zip(gl, exp)):
        LAST_DIFF = ('select_many', [insts.index(i) for i in gl], [insts.index(i) for i in exp]); return False
    first = exp[0] if exp else None
    if one is not first or any_ is not first:
        LAST_DIFF = ('select_one/any',); return False
    if not isinstance(got, xtuml.QuerySet) or got.first is not first or \
            got.last is not (exp[-1] if exp else None) or len(got) != len(exp):
        LAST_DIFF = ('QuerySet first/last/len',); return False
    return True
