"""C18: metamodels built from one loader are independent of each other and of later input.
The interleaving of build / input / mutation steps is a solver-chosen table index; model text is
realised (PLY untraced); build_metamodel and every mutation run traced."""
import itertools
import xtuml
from hlib import POST, PARAMS, cs, case, notrace, stub_str

stub_str()
LAST_DIFF = None
STEPS = PARAMS.get('steps', 2)
SHARD, NSHARDS = PARAMS.get('shard', 0), PARAMS.get('nshards', 1)

T0 = '''CREATE TABLE A (Id UNIQUE_ID, Name STRING, N INTEGER);
CREATE TABLE B (Id UNIQUE_ID, A_Id UNIQUE_ID);
CREATE ROP REF_ID R1 FROM MC B (A_Id) TO 1C A (Id);
CREATE UNIQUE INDEX I1 ON A (Id);
INSERT INTO A VALUES (1, 'one', 10);
INSERT INTO A VALUES (2, 'two', 20);
INSERT INTO B VALUES (7, 1);
INSERT INTO B VALUES (8, 0);
INSERT INTO B VALUES (12, 33);
CREATE TABLE D (Id UNIQUE_ID, A_Id UNIQUE_ID);
INSERT INTO D VALUES (60, 1);
INSERT INTO D VALUES (61, 33);
INSERT INTO Inferred VALUES (5, 'x');
INSERT INTO Named (b, a) VALUES ('x', 5);
'''
# the first later input defines NO class: it supplies the instance a dangling reference of T0 points to (B 12 -> A 33),
# and an association between classes that are already there
T1 = '''INSERT INTO A VALUES (3, 'three', 30);
INSERT INTO B VALUES (9, 3);
INSERT INTO A VALUES (33, 'late', 0);
CREATE ROP REF_ID R2 FROM MC D (A_Id) TO 1C A (Id);
INSERT INTO Inferred VALUES (6, 'y');
INSERT INTO Named (a, b) VALUES (6, 'y');
'''
MUTS = ['write', 'new', 'delete', 'relate', 'unrelate', 'append_attr', 'delete_attr', 'define_id',
        'define_class', 'write_id', 'new_default']
OPTS = [('build',), ('input',), ('build_int',), ('input_bad',)] + [('mut', k, u) for k in range(2) for u in range(len(MUTS))]
SEQS = list(itertools.product(range(len(OPTS)), repeat=STEPS))[SHARD::NSHARDS]
NSEQ = len(SEQS)


def mutate(m, u):
    name = MUTS[u]
    a = m.select_many('A')
    b = m.select_many('B')
    if name == 'write':
        a.first.Name = 'changed'
        if (m.find_metaclass('A').attribute_type('N') or '').upper() == 'INTEGER':
            a.first.N = 77
    elif name == 'write_id':
        a.last.Id = 55
    elif name == 'new':
        m.new('A', Id=50, Name='fresh'); m.new('B', Id=51, A_Id=2)
    elif name == 'delete':
        if b.first is not None:
            xtuml.delete(b.first)
    elif name == 'relate':
        x = m.select_any('B', lambda s: s.A_Id is None)
        if x is not None:
            xtuml.relate(x, a.last, 1)
    elif name == 'unrelate':
        x = m.select_any('B', lambda s: s.A_Id is not None)
        if x is not None:
            xtuml.unrelate(x, xtuml.navigate_one(x).A[1](), 1)
    elif name == 'append_attr':
        if m.find_metaclass('A').attribute_type('Extra') is None:
            m.find_metaclass('A').append_attribute('Extra', 'boolean')
            for inst in a:
                inst.Extra = True
    elif name == 'delete_attr':
        m.find_metaclass('A').delete_attribute('N')
        m.find_metaclass('A').append_attribute('N', 'string')          # re-added with another type
        for inst in a:
            inst.N = 'n' 
    elif name == 'define_id':
        m.define_unique_identifier('B', 9, 'Id')
    elif name == 'new_default':
        m.new('A', Name='defaulted id')          # draws an id from THIS metamodel's generator
    elif name == 'define_class':
        if 'Z' not in m.metaclasses:
            m.define_class('Z', [('Id', 'unique_id')])
        m.new('Z', Id=60)


import uuid as _uuid
_COUNTER = [1 << 100]


def _uuid4_stub():
    # environment stub: uuid4 by its contract (a fresh value per call), deterministic for the symbolic executor
    _COUNTER[0] += 1
    return _uuid.UUID(int=_COUNTER[0])


_uuid.uuid4 = _uuid4_stub


def gen_state(m):
    """the id the metamodel would hand out next (peek does not advance), and which generator object it uses"""
    g = m.id_generator
    return (type(g).__name__, g.peek())


def snap(m):
    # serialised model + the declared type of some attributes as the metaclasses report it
    types = [(k, n, mc.attribute_type(n)) for k, mc in sorted(m.metaclasses.items()) for n in ('Id', 'Name', 'N', 'Extra', 'a', 'b')]
    return xtuml.serialize(m), types


def check(si: int) -> bool:
    """
    pre: 0 <= si < NSEQ
    post: POST(_)
    """
    global LAST_DIFF
    seq = [OPTS[o] for o in SEQS[cs(si, 0, NSEQ - 1)]] + [('build',)]
    with notrace():
        loader = xtuml.ModelLoader()
        loader.input(T0)
    accepted = [T0]
    built = [loader.build_metamodel()]
    snaps = [snap(built[0])]
    gens = [gen_state(built[0])]
    expect_text = {}
    for step in seq:
        if step[0] in ('build', 'build_int'):
            m = loader.build_metamodel() if step[0] == 'build' else loader.build_metamodel(xtuml.IntegerGenerator())
            built.append(m); snaps.append(snap(m)); gens.append(gen_state(m))
            if len(set(id(x.id_generator) for x in built)) != len(built):
                case('c18', [s for s in seq])
                LAST_DIFF = ('two metamodels share one id generator', seq); return False
            with notrace():
                fresh = xtuml.ModelLoader()
                for t in accepted:
                    fresh.input(t)
                ref = snap(fresh.build_metamodel())
            if snaps[-1] != ref:
                case('c18', [s for s in seq])
                LAST_DIFF = ('build differs from a build of the same input by a fresh loader', seq, snaps[-1], ref)
                return False
        elif step[0] == 'input_bad':
            # a text that is rejected after two complete statements: nothing of it may show up in any build
            with notrace():
                try:
                    loader.input("INSERT INTO A VALUES (90, 'rejected', 9);\nINSERT INTO B VALUES (91, 1);\nINSERT INTO A VALUES (92, 'x' 9)\n")
                    rejected = False
                except xtuml.ParsingException:
                    rejected = True
            if not rejected:
                case('c18', [s for s in seq])
                LAST_DIFF = ('harness: malformed text accepted',); return False
        elif step[0] == 'input':
            if T1 not in accepted:
                text = T1
            elif not any('CREATE TABLE Inferred' in t for t in accepted):
                # an explicit definition of a class that earlier builds had to infer from its rows
                text = "CREATE TABLE C (Id UNIQUE_ID);\nINSERT INTO C VALUES (4);\nCREATE TABLE Inferred (a INTEGER, b STRING);\nCREATE TABLE Named (A REAL, B STRING, c BOOLEAN);\nINSERT INTO A VALUES (%d, 'more', 0);\n" % (10 + len(accepted))
            else:
                text = "INSERT INTO A VALUES (%d, 'more', 0);\n" % (10 + len(accepted))
            with notrace():
                loader.input(text)
            accepted.append(text)
        else:
            _, k, u = step
            if k >= len(built):
                return None
            mutate(built[k], u)
            snaps[k] = snap(built[k]); gens[k] = gen_state(built[k])
        # non-interference: every other metamodel still serialises as before
        for n, m in enumerate(built):
            if step[0] == 'mut' and n == step[1]:
                continue
            if snap(m) != snaps[n]:
                case('c18', [s for s in seq])
                LAST_DIFF = ('metamodel %d changed by step' % n, step, seq); return False
            if gen_state(m) != gens[n]:
                case('c18', [s for s in seq])
                LAST_DIFF = ('the id generator of metamodel %d was advanced by a step on another one' % n, step, seq); return False
    case('c18', [list(s) for s in seq])
    return True
