"""C11: the consistency check reports exactly the violations present.
Link matrices are UNCONSTRAINED (installed with connect(check=False), i.e. what loading duplicate
keys produces); identifying values come from small pools (they are hashed); everything is
case-split.  Oracle: direct count from the matrix / value table."""
import itertools
import os
import tempfile
import xtuml
import xtuml.consistency_check
from hlib import POST, PARAMS, cs, case, known, notrace, stub_str

stub_str()
# message formatting stubs (only used to build log messages)
xtuml.consistency_check.pretty_from_link = lambda inst, link: ''
xtuml.consistency_check.pretty_to_link = lambda inst, link: ''
xtuml.consistency_check.pretty_unique_identifier = lambda inst, identifier: ''
LAST_DIFF = None
CARDS = ['1', '1C', 'M', 'MC']
UIDT = PARAMS.get('uid_type', 'UNIQUE_ID')
N = PARAMS.get('n', 2)
CELLS = [(s, t) for s in range(N) for t in range(N)]
NMAT = 2 ** len(CELLS)


def viol(count, card):
    return (count < 1 and 'C' not in card) or (count > 1 and 'M' not in card)


def mk_assoc_model(sc, tc, sc2, tc2, refl):
    m = xtuml.MetaModel(xtuml.IntegerGenerator())
    if refl:
        m.define_class('A', [('Id', UIDT), ('A_Id', UIDT), ('A2_Id', UIDT)])
        kinds = ('A', 'A')
    else:
        m.define_class('A', [('Id', UIDT)])
        m.define_class('B', [('Id', UIDT), ('A_Id', UIDT), ('A2_Id', UIDT)])
        kinds = ('B', 'A')
    m.define_association(1, kinds[0], ['A_Id'], 'M' in sc, 'C' in sc, 'src' if refl else '',
                         kinds[1], ['Id'], 'M' in tc, 'C' in tc, 'tgt' if refl else '').formalize()
    m.define_association(12, kinds[0], ['A2_Id'], 'M' in sc2, 'C' in sc2, 'src' if refl else '',
                         kinds[1], ['Id'], 'M' in tc2, 'C' in tc2, 'tgt' if refl else '').formalize()
    return m, kinds


# the second association's cardinalities vary only with the first's fixed (and vice versa)
CIS = [c for c in range(256) if not ((c // 16) and (c % 16))][PARAMS.get('shard', 0)::PARAMS.get('nshards', 1)]
NCI = len(CIS)
MAT2 = [0, 6, NMAT - 1]


def check_assoc(ci: int, mat: int, m2: int, refl: bool) -> bool:
    """
    pre: 0 <= ci < NCI and 0 <= mat < NMAT and 0 <= m2 < 3
    post: POST(_)
    """
    global LAST_DIFF
    ci = CIS[cs(ci, 0, NCI - 1)]; mat = cs(mat, 0, NMAT - 1); mat2 = MAT2[cs(m2, 0, 2)]
    refl = True if refl else False
    sc, tc, sc2, tc2 = CARDS[ci % 4], CARDS[(ci // 4) % 4], CARDS[(ci // 16) % 4], CARDS[(ci // 64) % 4]
    with notrace():
        m, kinds = mk_assoc_model(sc, tc, sc2, tc2, refl)
        S = [m.new(kinds[0]) for _ in range(N)]
        T = S if refl else [m.new(kinds[1]) for _ in range(N)]
        R = [{c for n, c in enumerate(CELLS) if (mt >> n) & 1} for mt in (mat, mat2)]
        for ai in range(2):
            ass = m.associations[ai]
            for (s, t) in sorted(R[ai]):
                ass.source_link.connect(T[t], S[s], check=False)
                ass.target_link.connect(S[s], T[t], check=False)
    exp = []
    for ai, (c_s, c_t) in enumerate(((sc, tc), (sc2, tc2))):
        e = 0
        for s in range(N):      # referring instance -> referred end has cardinality c_t
            e += 1 if viol(sum(1 for (s2, t) in R[ai] if s2 == s), c_t) else 0
        for t in range(N):      # referred instance -> referring end has cardinality c_s
            e += 1 if viol(sum(1 for (s, t2) in R[ai] if t2 == t), c_s) else 0
        exp.append(e)
    got_all = xtuml.check_association_integrity(m)
    got1 = xtuml.check_association_integrity(m, 1)
    got2 = xtuml.check_association_integrity(m, 'R12')
    got_none = xtuml.check_association_integrity(m, 7)
    uniq = xtuml.check_uniqueness_constraint(m)
    cons = m.is_consistent()
    case('assoc', sc, tc, sc2, tc2, mat, mat2, refl)
    if (got_all, got1, got2, got_none) != (exp[0] + exp[1], exp[0], exp[1], 0):
        LAST_DIFF = ('association counts', (got_all, got1, got2, got_none), exp, sc, tc, sc2, tc2, mat, mat2); return False
    if cons is not (exp[0] + exp[1] == 0 and uniq == 0):
        LAST_DIFF = ('is_consistent', cons, exp, uniq); return False
    return True


IDV = [None, 0, 1, 2]
NV = [None, 0, 1]
SV = [None, 'a', 'b']


def ident_cases():
    out = []
    for a in itertools.product(range(4), repeat=3):
        out.append((1, list(a), [4, 4, 4]))
    for b in itertools.product(range(9), repeat=3):
        out.append((2, [1, 2, 3], list(b)))
    for a in itertools.product(range(4), repeat=2):
        for b in itertools.product([0, 4, 7, 5], repeat=2):
            out.append((3, list(a) + [3], list(b) + [8]))
    for xs in itertools.product(range(3), repeat=3):
        for b in itertools.product([4, 5], repeat=3):        # n in {0, 1} (s fixed), x in {0, 1, 2}
            out.append((4, [1, 2, 3], list(b), list(xs)))
    return out


ICASES = ident_cases()[PARAMS.get('shard', 0)::PARAMS.get('nshards', 1)]
NIC = len(ICASES)


def check_ident(ii: int) -> bool:
    """
    pre: 0 <= ii < NIC
    post: POST(_)
    """
    # which: bit 0 = identifier I1 (Id), bit 1 = identifier I2 (n, s)
    global LAST_DIFF
    ic = ICASES[cs(ii, 0, NIC - 1)]
    which, av, bv = ic[0], ic[1], ic[2]
    xv = ic[3] if len(ic) > 3 else [0, 0, 0]
    with notrace():
        m = xtuml.MetaModel(xtuml.IntegerGenerator())
        m.define_class('K', [('Id', UIDT), ('n', 'INTEGER'), ('s', 'STRING'), ('x', 'INTEGER')])
        m.define_class('Z', [('Id', UIDT)])
        if which & 1:
            m.define_unique_identifier('K', 1, 'Id')
        if which & 2:
            m.define_unique_identifier('K', 2, 'n', 's')
        if which & 4:
            m.define_unique_identifier('K', 3, 'n', 'x')
        m.define_unique_identifier('Z', 1, 'Id')
        rows = []
        for k in range(3):
            inst = m.new('K')
            if av[k] == 3 and which == 3 and k == 2:
                pass
            inst.Id = IDV[av[k]]; inst.n = NV[bv[k] % 3]; inst.s = SV[bv[k] // 3]; inst.x = xv[k]
            rows.append((IDV[av[k]], NV[bv[k] % 3], SV[bv[k] // 3], xv[k]))
        z = [m.new('Z'), m.new('Z')]
        z[1].Id = z[0].Id            # one repeated identifier in the other class
    exp = 0
    for k, (i, n, s, x) in enumerate(rows):
        if which & 1:
            exp += 1 if (i is None or i == 0) else 0
            exp += 1 if any(rows[j][0] == i for j in range(k)) else 0
        if which & 2:
            exp += (1 if n is None else 0) + (1 if s is None else 0)
            exp += 1 if any(rows[j][1:3] == (n, s) for j in range(k)) else 0
        if which & 4:
            exp += (1 if n is None else 0)
            exp += 1 if any((rows[j][1], rows[j][3]) == (n, x) for j in range(k)) else 0
    got_k = xtuml.check_uniqueness_constraint(m, 'K')
    got_z = xtuml.check_uniqueness_constraint(m, 'z')
    got_all = xtuml.check_uniqueness_constraint(m)
    cons = m.is_consistent()
    case('ident', which, av, bv)
    if (got_k, got_z, got_all) != (exp, 1, exp + 1):
        LAST_DIFF = ('uniqueness counts', (got_k, got_z, got_all), exp, rows, which); return False
    if cons is not False:
        LAST_DIFF = ('is_consistent',); return False
    return True


def check_subtype(x: int, y: int) -> bool:
    """
    pre: -1 <= x < 3 and -1 <= y < 3
    post: POST(_)
    """
    # supertype P with subtypes X, Y over R4; x, y = index of the P instance X0 / Y0 is related to
    global LAST_DIFF
    x = cs(x, -1, 2); y = cs(y, -1, 2)
    with notrace():
        # ANOTHER model checked earlier in the same process has a class with the same key letters and association
        # number but ONE subtype only: nothing learnt about it may be carried over to the model under test
        m0 = xtuml.MetaModel(xtuml.IntegerGenerator())
        m0.define_class('P', [('Id', UIDT)]); m0.define_class('X', [('Id', UIDT)])
        m0.define_association(4, 'X', ['Id'], False, True, '', 'P', ['Id'], False, False, '').formalize()
        P0 = [m0.new('P') for _ in range(2)]
        xtuml.relate(m0.new('X'), P0[0], 4)
    if xtuml.check_subtype_integrity(m0, 'P', 4) != 1:
        LAST_DIFF = ('subtype count of the first model',); return False
    with notrace():
        m = xtuml.MetaModel(xtuml.IntegerGenerator())
        m.define_class('P', [('Id', UIDT)]); m.define_class('X', [('Id', UIDT)]); m.define_class('Y', [('Id', UIDT)])
        m.define_association(4, 'X', ['Id'], False, True, '', 'P', ['Id'], False, False, '').formalize()
        m.define_association(4, 'Y', ['Id'], False, True, '', 'P', ['Id'], False, False, '').formalize()
        P = [m.new('P') for _ in range(3)]
        X0 = m.new('X'); Y0 = m.new('Y')
        if x >= 0: xtuml.relate(X0, P[x], 4)
        if y >= 0: xtuml.relate(Y0, P[y], 4)
    got = xtuml.check_subtype_integrity(m, 'P', 4)
    got2 = xtuml.check_subtype_integrity(m, 'p', 'R4')
    case('subtype', x, y)
    exp = sum(1 for k in range(3) if k != x and k != y)
    if got != exp or got2 != exp:
        LAST_DIFF = ('subtype count', got, got2, exp); return False
    return True


def check_ref_ident(x: int, y: int, cond: bool) -> bool:
    """
    pre: -1 <= x < 2 and -1 <= y < 2
    post: POST(_)
    """
    # K.Id is identifying AND referential (refers to T.Id); K instances related to T x / y or to none.
    # an unrelated K has a null identifying value whatever the conditionality of the referred end
    global LAST_DIFF
    x = cs(x, -1, 1); y = cs(y, -1, 1)
    cond = True if cond else False
    with notrace():
        m = xtuml.MetaModel(xtuml.IntegerGenerator())
        m.define_class('T', [('Id', UIDT)]); m.define_class('K', [('Id', UIDT), ('v', 'INTEGER')])
        m.define_association(1, 'K', ['Id'], True, True, '', 'T', ['Id'], False, cond, '').formalize()
        m.define_unique_identifier('K', 1, 'Id')
        m.define_unique_identifier('T', 1, 'Id')
        T = [m.new('T'), m.new('T')]
        K = [m.new('K'), m.new('K')]
        for k, t in zip(K, (x, y)):
            if t >= 0:
                xtuml.relate(k, T[t], 1)
    got = xtuml.check_uniqueness_constraint(m, 'K')
    got_assoc = xtuml.check_association_integrity(m, 1)
    case('ref_ident', x, y, cond)
    exp = (1 if x < 0 else 0) + (1 if y < 0 else 0) + (1 if x == y else 0)     # nulls + the second repeating the first (two nulls are equal too)
    exp_assoc = 0 if cond else (1 if x < 0 else 0) + (1 if y < 0 else 0)
    if got != exp or got_assoc != exp_assoc or m.is_consistent() is not (exp == 0 and exp_assoc == 0):
        LAST_DIFF = ('referential identifier', got, exp, got_assoc, exp_assoc, x, y, cond); return False
    return True


OPTS = [[], ['-r', '1'], ['-r', '12'], ['-R', '1', '-r', '12'], ['-k', 'A'], ['-k', 'B'], ['-k', 'A', '-k', 'B'],
        ['-r', '1', '-k', 'B'], ['-r', '2']]
NOPT = len(OPTS)


def check_cli(ci: int, a1: int, b0: int, b1: int, oi: int) -> bool:
    """
    pre: 0 <= ci < 16 and 1 <= a1 <= 2 and 0 <= b0 < 4 and 0 <= b1 < 4 and 0 <= oi < NOPT
    post: POST(_)
    """
    # model text: A rows with ids 1 and a1 (duplicate when a1 == 1), B rows referring to id b0/b1
    # (0 = null, 3 = dangling) across R1; R2 is left unpopulated.  The text is realised; the
    # command-line tool parses it outside the tracer.
    global LAST_DIFF
    ci = cs(ci, 0, 15); a1 = cs(a1, 1, 2); b0 = cs(b0, 0, 3); b1 = cs(b1, 0, 3); oi = cs(oi, 0, NOPT - 1)
    sc, tc = CARDS[ci % 4], CARDS[ci // 4]
    text = ('CREATE TABLE A (Id UNIQUE_ID);\nCREATE TABLE B (Id UNIQUE_ID, A_Id UNIQUE_ID, A2_Id UNIQUE_ID);\n'
            'CREATE ROP REF_ID R1 FROM %s B (A_Id) TO %s A (Id);\n'
            'CREATE ROP REF_ID R12 FROM 1 B (A2_Id) TO 1C A (Id);\n'
            'CREATE UNIQUE INDEX I1 ON A (Id);\nCREATE UNIQUE INDEX I1 ON B (Id);\n' % (sc, tc))
    aids = [1, a1]
    for i in aids:
        text += 'INSERT INTO A VALUES (%d);\n' % i
    for n, r in enumerate((b0, b1)):
        text += 'INSERT INTO B VALUES (%d, %d, 0);\n' % (n + 5, r)
    with notrace():
        d = tempfile.mkdtemp(prefix='c11_')
        p = os.path.join(d, 'm.sql')
        with open(p, 'w') as f:
            f.write(text)
        try:
            import logging
            logging.disable(logging.CRITICAL)
            got = xtuml.consistency_check.main([p] + OPTS[oi])
        finally:
            logging.disable(logging.NOTSET)
            os.remove(p); os.rmdir(d)
    case('cli', sc, tc, a1, b0, b1, OPTS[oi])
    # oracle
    e1 = 0
    for r in (b0, b1):
        cnt = sum(1 for i in aids if r != 0 and i == r)
        e1 += 1 if viol(cnt, tc) else 0
    for i in aids:
        cnt = sum(1 for r in (b0, b1) if r != 0 and r == i)
        e1 += 1 if viol(cnt, sc) else 0
    e2 = 2          # R12: every B must have exactly one A across it (unconditional), nothing is linked -> 2 violations
    ua = 1 if a1 == 1 else 0
    ub = 0
    opts = OPTS[oi]
    rels = [opts[k + 1] for k in range(0, len(opts), 2) if opts[k].lower() == '-r']
    kinds = [opts[k + 1] for k in range(0, len(opts), 2) if opts[k] == '-k']
    exp = 0
    if rels:
        exp += sum({'1': e1, '12': e2}.get(r, 0) for r in rels)
    else:
        exp += e1 + e2
    if kinds:
        exp += sum({'A': ua, 'B': ub}[k] for k in kinds)
    else:
        exp += ua + ub
    if (got > 0) != (exp > 0) or got != exp:
        LAST_DIFF = ('cli', got, exp, text, opts); return False
    return True
