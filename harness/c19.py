from engine_api import Cond

PROPERTY = 'C19'
LEVEL = 'other'
ASSUMPTIONS = [
    'uuid.uuid4 is stubbed by its contract (arbitrary 128-bit value with RFC 4122 version/variant bits); its pairwise freshness is assumed',
    'a user-supplied generator is any iterator; its values are symbolic, positive and strictly increasing (distinct, non-null)',
    'type-name pool for the unknown-type rule is a fixed list (case variants of the five core types + 11 other names)',
]


def conditions(tier, seed):
    t = 300 if tier == 'quick' else 1800
    out = []
    for gen in ('integer', 'user'):
        out.append(Cond('new_%s' % gen, 'c19_new.py', dict(gen=gen), func='check_new', timeout=t,
                        bound='class with one attribute per core type + 2 ids + referential; 0..6 positional args x every keyword subset',
                        symbolic=['8 supplied bool/int/id values', 'user generator values g0..g3'], realised=['real and string argument values are fixed constants'],
                        case_split=['npos', 'kwmask']))
    for gen in ('integer', 'uuid'):
        out.append(Cond('history_%s' % gen, 'c19_new.py', dict(gen=gen), func='check_history', timeout=t,
                        bound='three creations, each with 0..2 positional ids x 4 keyword subsets',
                        symbolic=['explicit id values u1, u2'], case_split=['p1..p3', 'k1..k3']))
    out.append(Cond('intgen_step', 'c19_new.py', {}, func='check_intgen', timeout=t,
                    bound='arbitrary generator state c (unbounded int), up to 4 calls out of peek / next / abandoned for-loop / next(iter(g)) in any order',
                    symbolic=['c'], case_split=['n', 'ops']))
    out.append(Cond('intgen_fresh', 'c19_new.py', {}, func='check_intgen_fresh', timeout=t,
                    bound='first n <= 6 values of a fresh IntegerGenerator', case_split=['n']))
    out.append(Cond('uuidgen', 'c19_new.py', {}, func='check_uuidgen', timeout=t,
                    bound='three uuid4 results (symbolic 128-bit, version/variant bits set), peek/next interleavings',
                    symbolic=['v1', 'v2', 'v3'], case_split=['ops']))
    out.append(Cond('generator_replaced', 'c19_new.py', {}, func='check_swap', timeout=t,
                    bound='0..2 creations, then metamodel.id_generator replaced by another user generator, then creations in a class defined before and one defined after',
                    symbolic=['generator outputs a1 a2 b1 b2 b3'], case_split=['k']))
    out.append(Cond('generator_subclass', 'c19_new.py', {}, func='check_subclass', timeout=t,
                    bound='a generator derived from IntegerGenerator that overrides next() to step over one reserved id (1..4); 1..4 defaulted creations',
                    case_split=['reserved id', 'n']))
    out.append(Cond('attribute_edits', 'c19_new.py', {}, func='check_edit', timeout=t,
                    bound='0..2 creations, then one of 8 attribute edits (insert at 0 / 1 / 2, append, delete, unknown type), then creations without and with a positional argument',
                    symbolic=['positional value pa'], case_split=['edit', 'creations before']))
    out.append(Cond('types', 'c19_new.py', {}, func='check_type', timeout=t,
                    bound='16 type names x value omitted / positional / keyword', case_split=['ti', 'how']))
    return out
