"""C02 inductive step: arbitrary well-formed link state + liveness + ONE operation.

State  = for every association of the shape a bit matrix over small instance pools (which referring
         instance is linked to which referred instance), restricted to the single-valued ends, plus
         a liveness bit per deletable instance (a deleted instance is unlinked: that is what a
         successful delete leaves behind), installed directly with Link.connect(check=False) on both
         directions (the loader's own route).
Step   = one call of new / relate / unrelate / delete (valid and invalid, both argument orders).
Oracle = the relation itself: post-state relation, both navigation directions, referential reads,
         live sets, exception class, and that a rejected call leaves everything unchanged.
Identifying values are symbolic-through (unbounded ints read back through referential attributes).
"""
import itertools
import xtuml
from xtuml import relate, unrelate, navigate_many as many
from hlib import POST, PARAMS, cs, csb, case, known, notrace, stub_str

stub_str()
SHAPE = PARAMS.get('shape', '1C_MC')
OP = PARAMS.get('op', 'relate_st')
POOL = PARAMS.get('pool', 2)
LAST_DIFF = None

# (rel, S kind, S keys, S many, S cond, S phrase,  T kind, T keys, T many, T cond, T phrase)
SHAPES = {
    '1C_MC': dict(classes={'A': ['Id'], 'B': ['Id', 'A_Id']},
                  assocs=[(1, 'B', ['A_Id'], True, True, '', 'A', ['Id'], False, True, '')]),
    '1_M': dict(classes={'A': ['Id'], 'B': ['Id', 'A_Id']},
                assocs=[(1, 'B', ['A_Id'], True, False, '', 'A', ['Id'], False, False, '')]),
    '1C_1C': dict(classes={'A': ['Id'], 'B': ['Id', 'A_Id']},
                  assocs=[(1, 'B', ['A_Id'], False, True, '', 'A', ['Id'], False, True, '')]),
    '1_1_phr': dict(classes={'A': ['Id'], 'B': ['Id', 'A_Id']},
                    assocs=[(1, 'B', ['A_Id'], False, False, 'owns', 'A', ['Id'], False, False, 'is owned by')]),
    'refl': dict(classes={'C': ['Id', 'Prev_Id']},
                 assocs=[(2, 'C', ['Prev_Id'], False, True, 'precedes', 'C', ['Id'], False, True, 'succeeds')]),
    'refl_M': dict(classes={'C': ['Id', 'Parent_Id']},
                   assocs=[(2, 'C', ['Parent_Id'], True, True, 'is parent of', 'C', ['Id'], False, True, 'is child of')]),
    'assoc': dict(classes={'A': ['Id'], 'B': ['Id'], 'L': ['A_Id', 'B_Id']},
                  assocs=[(3, 'L', ['A_Id'], True, True, '', 'A', ['Id'], False, False, ''),
                          (3, 'L', ['B_Id'], True, True, '', 'B', ['Id'], False, False, '')]),
    'assoc_1': dict(classes={'A': ['Id'], 'B': ['Id'], 'L': ['A_Id', 'B_Id']},
                    assocs=[(3, 'L', ['A_Id'], False, True, '', 'A', ['Id'], False, False, ''),
                            (3, 'L', ['B_Id'], False, True, '', 'B', ['Id'], False, False, '')]),
    'subsuper': dict(classes={'P': ['Id'], 'X': ['Id'], 'Y': ['Id']},
                     assocs=[(4, 'X', ['Id'], False, True, '', 'P', ['Id'], False, False, ''),
                             (4, 'Y', ['Id'], False, True, '', 'P', ['Id'], False, False, '')]),
    'comp_key': dict(classes={'A': ['Id', 'Code'], 'B': ['Id', 'A_Id', 'A_Code']},
                     assocs=[(8, 'B', ['A_Id', 'A_Code'], True, True, '', 'A', ['Id', 'Code'], False, True, '')]),
    # identifying attribute of type INTEGER whose value may be 0 (a falsy but perfectly valid identifying value)
    'int_key': dict(classes={'A': ['Id', 'N'], 'B': ['Id', 'A_N']}, types={'N': 'integer', 'A_N': 'integer'},
                    assocs=[(9, 'B', ['A_N'], True, True, '', 'A', ['N'], False, True, '')]),
    'two_rels': dict(classes={'A': ['Id'], 'B': ['Id', 'A_Id', 'A2_Id']},
                     assocs=[(5, 'B', ['A_Id'], True, True, '', 'A', ['Id'], False, True, ''),
                             (6, 'B', ['A2_Id'], False, True, '', 'A', ['Id'], False, True, '')]),
}
SH = SHAPES[SHAPE]
NASS = len(SH['assocs'])
KINDS = list(SH['classes'])


def valid_matrices(a):
    """all bit matrices over pool x pool that respect the single-valued ends of association a"""
    (_r, _sk, _skeys, s_many, _sc, _sp, _tk, _tkeys, t_many, _tc, _tp) = SH['assocs'][a]
    refl = _sk == _tk
    out = []
    cells = [(s, t) for s in range(POOL) for t in range(POOL)]
    for bits in itertools.product([0, 1], repeat=len(cells)):
        R = {c for c, b in zip(cells, bits) if b}
        if not t_many and any(sum(1 for (s, t) in R if s == s0) > 1 for s0 in range(POOL)):
            continue
        if not s_many and any(sum(1 for (s, t) in R if t == t0) > 1 for t0 in range(POOL)):
            continue
        out.append(sorted(R))
    return out


MATS = [valid_matrices(a) for a in range(NASS)]
NM0 = len(MATS[0])
NM1 = len(MATS[1]) if NASS > 1 else 1
NLIVE = 2 ** len(KINDS)        # one deletable instance (index 0) per class


def mk():
    m = xtuml.MetaModel(xtuml.IntegerGenerator())
    for k, attrs in SH['classes'].items():
        m.define_class(k, [(a, SH.get('types', {}).get(a, 'unique_id')) for a in attrs])
    for (r, sk, skeys, sm, sc, sp, tk, tkeys, tm, tc, tp) in SH['assocs']:
        ass = m.define_association(r, sk, skeys, sm, sc, sp, tk, tkeys, tm, tc, tp)
        ass.formalize()
    return m


def ref_attr_of_id(kind):
    for (_r, sk, skeys, *_rest) in SH['assocs']:
        if sk == kind and 'Id' in skeys:
            return True
    return False


def enum_cases():
    """every (link matrices, liveness, association, operand pair) the step is taken from: states in
    which deleted instances are unlinked, operands as the operation needs them"""
    out = []
    for c0 in range(NM0):
        for c1 in range(NM1):
            R = [set(map(tuple, MATS[0][c0]))] + ([set(map(tuple, MATS[1][c1]))] if NASS > 1 else [])
            for dead in range(NLIVE):
                live = {k: [True] * POOL for k in KINDS}
                for n, k in enumerate(KINDS):
                    if (dead >> n) & 1:
                        live[k][0] = False
                ok = True
                for ai, ad in enumerate(SH['assocs']):
                    for (s, t) in R[ai]:
                        if not live[ad[1]][s] or not live[ad[6]][t]:
                            ok = False
                if not ok:
                    continue
                for a in range(NASS):
                    sk, tk = SH['assocs'][a][1], SH['assocs'][a][6]
                    for i in range(POOL):
                        for j in range(POOL):
                            if OP.startswith(('relate', 'unrelate')) and not (live[sk][i] and live[tk][j]):
                                continue   # operating on a deleted instance is outside the claim
                            if OP == 'relate_wrongkinds' and (sk == tk or not live[sk][j]):
                                continue
                            if OP in ('delete_s',) and j != 0:
                                continue   # operand j unused
                            if OP in ('delete_t',) and i != 0:
                                continue
                            if OP == 'new' and (j != 0):
                                continue
                            if OP in ('relate_none', 'unrelate_none') and j != 0:
                                continue
                            out.append((c0, c1, dead, a, i, j))
    return out


CASES = enum_cases()
NCASES = len(CASES)


def check(ci: int, v0: int, v1: int) -> bool:
    """
    pre: 0 <= ci < NCASES
    pre: v0 != v1 and 0 < v0 and 0 < v1
    post: POST(_)
    """
    global LAST_DIFF
    c0, c1, dead, a, i, j = CASES[cs(ci, 0, NCASES - 1)]
    with notrace():
        m = mk()
        pools = {}
        for k in KINDS:
            pools[k] = [m.new(k) for _ in range(POOL)]
    # symbolic identifying values where Id is not itself referential
    vals = [v0, v1]
    for k in KINDS:
        if not ref_attr_of_id(k):
            for n, inst in enumerate(pools[k][:2]):
                inst.Id = vals[n] * 4 + KINDS.index(k)
    if SHAPE == 'int_key':
        pools['A'][0].N = v0 - 1          # >= 0: the identifying value 0 is in the range
        pools['A'][1].N = v1 - 1
    with notrace():
        pre = install(m, pools, c0, c1, dead)
    if pre is None:
        return None
    R, live = pre
    (rel, sk, skeys, s_many, _sc, s_phrase, tk, tkeys, t_many, _tc, t_phrase) = SH['assocs'][a]
    s_inst, t_inst = pools[sk][i], pools[tk][j]
    R2 = [set(r) for r in R]
    live2 = {k: list(v) for k, v in live.items()}
    exp_exc = None
    exp_ret = True
    pair = (i, j)

    def relate_expect():
        nonlocal exp_exc
        if pair in R[a]:
            return
        if (not t_many and any(s == i for (s, t) in R[a])) or \
           (not s_many and any(t == j for (s, t) in R[a])):
            exp_exc = xtuml.RelateException
        else:
            R2[a].add(pair)

    def unrelate_expect():
        nonlocal exp_exc
        if pair in R[a]:
            R2[a].discard(pair)
        else:
            exp_exc = xtuml.UnrelateException

    def delete_expect(kind, idx):
        nonlocal exp_exc
        if not live[kind][idx]:
            exp_exc = xtuml.DeleteException
            return
        live2[kind][idx] = False
        for ai, ad in enumerate(SH['assocs']):
            R2[ai] = {(s, t) for (s, t) in R2[ai]
                      if not (ad[1] == kind and s == idx) and not (ad[6] == kind and t == idx)}

    got_exc = None
    ret = None
    new_inst = None
    try:
        # navigating from x across the phrase given to relate(x, y, ..) reaches y:
        # relate(s, t, rel, s_phrase)  /  relate(t, s, rel, t_phrase)
        if OP == 'relate_st':
            relate_expect(); ret = relate(s_inst, t_inst, rel, s_phrase)
        elif OP == 'relate_ts':
            relate_expect(); ret = relate(t_inst, s_inst, rel, t_phrase)
        elif OP == 'unrelate_st':
            unrelate_expect(); ret = unrelate(s_inst, t_inst, rel, s_phrase)
        elif OP == 'unrelate_ts':
            unrelate_expect(); ret = unrelate(t_inst, s_inst, rel, t_phrase)
        elif OP == 'relate_unrelate':
            relate_expect()
            already = pair in R[a]
            ret = relate(s_inst, t_inst, rel, s_phrase)
            if not already:
                ret = unrelate(t_inst, s_inst, rel, t_phrase)
                R2[a].discard(pair)
        elif OP == 'delete_s':
            exp_ret = None; delete_expect(sk, i); ret = xtuml.delete(s_inst)
        elif OP == 'delete_t':
            exp_ret = None; delete_expect(tk, j); ret = xtuml.delete(t_inst)
        elif OP == 'relate_badrel':
            exp_exc = xtuml.UnknownLinkException; ret = relate(s_inst, t_inst, rel + 90, s_phrase)
        elif OP == 'unrelate_badrel':
            exp_exc = xtuml.UnknownLinkException; ret = unrelate(s_inst, t_inst, rel + 90, s_phrase)
        elif OP == 'relate_badphrase':
            exp_exc = xtuml.UnknownLinkException; ret = relate(s_inst, t_inst, rel, 'no such phrase')
        elif OP == 'unrelate_badphrase':
            exp_exc = xtuml.UnknownLinkException; ret = unrelate(t_inst, s_inst, rel, 'no such phrase')
        elif OP == 'relate_nophrase':
            # leaving the phrase out on an association whose ends are told apart by their phrases names no link
            if not s_phrase and not t_phrase:
                return None
            exp_exc = xtuml.UnknownLinkException
            ret = relate(s_inst, t_inst, rel) if i == 0 else relate(t_inst, s_inst, rel, '')
        elif OP == 'unrelate_nophrase':
            if not s_phrase and not t_phrase:
                return None
            exp_exc = xtuml.UnknownLinkException
            ret = unrelate(s_inst, t_inst, rel) if i == 0 else unrelate(t_inst, s_inst, rel, '')
        elif OP == 'relate_none':
            exp_ret = False
            ret = relate(None, t_inst, rel, s_phrase) if i == 0 else relate(s_inst, None, rel, s_phrase)
        elif OP == 'unrelate_none':
            exp_ret = False
            ret = unrelate(None, t_inst, rel, s_phrase) if i == 0 else unrelate(s_inst, None, rel, s_phrase)
        elif OP == 'relate_wrongkinds':
            # two instances of the same non-reflexive class are not connected by the association
            exp_exc = xtuml.UnknownLinkException
            ret = relate(s_inst, pools[sk][j], rel, s_phrase)
        elif OP == 'new':
            kind = sk if i == 0 else tk
            new_inst = m.new(kind)
            ret = True
        else:
            raise AssertionError('unknown op')
    except xtuml.MetaException as e:
        got_exc = type(e)
    case(SHAPE, OP, a, c0, c1, dead, i, j)
    if got_exc is not exp_exc:
        LAST_DIFF = ('exception', str(got_exc), str(exp_exc)); return False
    if exp_exc is not None:
        R2, live2 = R, live              # a rejected call leaves the model exactly as it was
    elif ret is not exp_ret and not (exp_ret is True and ret):
        LAST_DIFF = ('return value', ret, exp_ret); return False
    with notrace():
        got, exp = observe_nav(m, pools), expected(R2, live2, pools)
    got['ref'] = observe_refs(pools)
    if new_inst is not None:
        kind = sk if i == 0 else tk
        allk = list(m.select_many(kind))
        if allk[-1] is not new_inst or len(allk) != sum(live2[kind]) + 1:
            LAST_DIFF = ('new instance not appended to pool', len(allk)); return False
        exp['live'][kind] = exp['live'][kind] + [POOL]
        got['live'][kind] = [n if n is not None else POOL for n in got['live'][kind]]
        for ad in SH['assocs']:
            for (kk, rr, ph, ok) in ((ad[1], ad[0], ad[5], ad[6]), (ad[6], ad[0], ad[10], ad[1])):
                if kk == kind and list(many(new_inst).nav(ok, 'R%d' % rr, ph)()):
                    LAST_DIFF = ('new instance is linked',); return False
    if got != exp:
        key = None
        if exp_exc is xtuml.RelateException:
            key = 'C02/rejected-relate-leaves-half-link'
        if key and known(key):
            return None
        LAST_DIFF = ('state after %s' % OP, got, exp); return False
    return True


def install(m, pools, c0, c1, dead):
    """install the pre-state directly (concrete structure; runs untraced)"""
    global LAST_DIFF
    R = [set(map(tuple, MATS[0][c0]))] + ([set(map(tuple, MATS[1][c1]))] if NASS > 1 else [])
    live = {k: [True] * POOL for k in KINDS}
    for n, k in enumerate(KINDS):
        if (dead >> n) & 1:
            live[k][0] = False
    # a deleted instance takes part in no link
    for ai, ad in enumerate(SH['assocs']):
        sk, tk = ad[1], ad[6]
        for (s, t) in R[ai]:
            if not live[sk][s] or not live[tk][t]:
                return None
    for ai, ad in enumerate(SH['assocs']):
        sk, tk = ad[1], ad[6]
        ass = m.associations[ai]
        for (s, t) in sorted(R[ai]):
            ass.source_link.connect(pools[tk][t], pools[sk][s], check=False)
            ass.target_link.connect(pools[sk][s], pools[tk][t], check=False)
    for k in KINDS:
        if not live[k][0]:
            xtuml.delete(pools[k][0])
    if observe_nav(m, pools) != expected(R, live, pools, refs=False):
        LAST_DIFF = ('pre-state not installed as intended', observe_nav(m, pools), expected(R, live, pools))
        raise AssertionError('harness: pre-state')

    return R, live


def observe_refs(pools):
    """referential attribute reads (traced: the values are symbolic) against the partner's
    identifying values"""
    out = []
    for ai, (rel, sk, skeys, _sm, _sc, s_phrase, tk, tkeys, _tm, _tc, t_phrase) in enumerate(SH['assocs']):
        rid = 'R%d' % rel
        for s, inst in enumerate(pools[sk]):
            with notrace():
                got = list(many(inst).nav(tk, rid, s_phrase)())
            vals = [getattr(inst, k) for k in skeys]
            exp = [getattr(got[0], k) for k in tkeys] if got else [None] * len(skeys)
            same = all((x is None and y is None) or (x is not None and y is not None and x == y)
                       for x, y in zip(vals, exp))
            out.append((ai, s, True if same else False))
    return out


def observe_nav(m, pools):
    """both navigation directions of every association, live sets (concrete structure)"""
    out = {'nav': [], 'ref': [], 'live': {}}
    for ai, (rel, sk, skeys, _sm, _sc, s_phrase, tk, tkeys, _tm, _tc, t_phrase) in enumerate(SH['assocs']):
        rid = 'R%d' % rel
        for s, inst in enumerate(pools[sk]):
            got = list(many(inst).nav(tk, rid, s_phrase)())
            out['nav'].append((ai, 'S', s, sorted(idx(pools[tk], x) for x in got), len(got)))
        for t, inst in enumerate(pools[tk]):
            got = list(many(inst).nav(sk, rid, t_phrase)())
            out['nav'].append((ai, 'T', t, sorted(idx(pools[sk], x) for x in got), len(got)))
    for k in KINDS:
        out['live'][k] = [idxn(pools[k], x) for x in m.select_many(k)]
    return out


def expected(R, live, pools, refs=True):
    out = {'nav': [], 'ref': [], 'live': {}}
    for ai, ad in enumerate(SH['assocs']):
        for s in range(POOL):
            ts = sorted(t for (s2, t) in R[ai] if s2 == s)
            out['nav'].append((ai, 'S', s, ts, len(ts)))
            if refs:
                out['ref'].append((ai, s, True))
        for t in range(POOL):
            ss = sorted(s for (s, t2) in R[ai] if t2 == t)
            out['nav'].append((ai, 'T', t, ss, len(ss)))
    # subtype classes whose Id is referential: a referring instance linked on one association
    for k in KINDS:
        out['live'][k] = [n for n in range(POOL) if live[k][n]]
    return out


def idx(pool, x):
    for n, y in enumerate(pool):
        if y is x:
            return n
    return -1


def idxn(pool, x):
    for n, y in enumerate(pool):
        if y is x:
            return n
    return None
