"""Program corpus for C05 / C06: OAL bodies, name-resolved against fixtures/interp_model.xtuml
(classes Class(ID, Derived_Attribute), Other_Class(ID, Class_ID), Assoc(One_ID, Other_ID); R1 linked
reflexive Class-Class via Assoc with phrases 'one'/'other'; R2 Other_Class -> Class; functions,
operations, bridges LOG/ARCH/TIM, enumeration My_Enum, constant PI).  One statement per line,
canonical layout.  flags: p = reads param.P1/P2, s = uses self,
b = reads the bridge parameter param.message (bridge home only),
t = reads the structured parameter param.seg (home struct_fn only; My_Struct gets a member named length)."""

P = []


def prog(name, text, flags=''):
    P.append((name, text.strip('\n') + '\n', flags))


prog('assign_scalars', '''
x = 1;
assign y = x + 2 * 3;
z = (x + y) * (y - x) / 2 % 5;
b = true;
s = "text";
r = 1.5;
''')
prog('unary_ops', '''
x = 5;
y = -x;
z = not (x > 3);
w = +x;
v = -(-x);
''')
prog('precedence', '''
a = 1 + 2 * 3 - 4 / 2;
b = 1 < 2 and 3 >= 2 or not false;
c = (1 + 2) * 3;
d = 1 - (2 - 3);
e = 1 == 1 and 2 != 3;
''')
prog('params', '''
x = param.P1 + param.P2;
return x * param.P1;
''', 'p')
prog('if_elif_else', '''
x = 0;
if x == 0
  x = 1;
elif x == 1
  x = 2;
elif x == 2
  x = 3;
else
  x = 4;
end if;
if x > 1
  if x > 2
    x = 0;
  end if;
end if;
''')
prog('while_break_continue', '''
i = 0;
while i < 10
  i = i + 1;
  if i == 3
    continue;
  end if;
  if i == 7
    break;
  end if;
end while;
''')
prog('for_each', '''
select many cs from instances of Class;
n = 0;
for each c in cs
  n = n + 1;
  for each d in cs
    if c.ID == d.ID
      continue;
    end if;
    n = n + 2;
  end for;
end for;
''')
prog('create_delete', '''
create object instance c of Class;
create object instance of Other_Class;
create object instance o of Other_Class;
delete object instance o;
delete object instance c;
''')
prog('relate_simple', '''
create object instance c of Class;
create object instance o of Other_Class;
relate c to o across R2;
unrelate c from o across R2;
relate o to c across R2;
''')
prog('relate_using', '''
create object instance c1 of Class;
create object instance c2 of Class;
create object instance a of Assoc;
relate c1 to c2 across R1.'one' using a;
unrelate c1 from c2 across R1.'one' using a;
relate c2 to c1 across R1.'other' using a;
''')
prog('select_from', '''
select any c from instances of Class;
select many cs from instances of Class;
select any d from instances of Class where (selected.Derived_Attribute > 3);
select many ds from instances of Class where (selected.ID == c.ID and selected.Derived_Attribute < 10);
''')
prog('select_related', '''
select any c from instances of Class;
select one o related by c->Other_Class[R2];
select many os related by c->Other_Class[R2];
select any p related by c->Other_Class[R2] where (selected.Class_ID == 1);
select many as related by c->Assoc[R1.'one'];
select many cs related by c->Assoc[R1.'one']->Class[R1.'one'];
select one c2 related by o->Class[R2]->Assoc[R1.'other']->Class[R1.'other'] where (selected.ID != c.ID);
''')
prog('unary_set_ops', '''
select many cs from instances of Class;
select any c from instances of Class;
n = cardinality cs;
e = empty c;
ne = not_empty cs;
if empty cs or not_empty c
  n = cardinality c;
end if;
''')
prog('attr_write', '''
create object instance o of Other_Class;
o.Class_ID = 5;
assign o.Class_ID = o.Class_ID + 1;
x = o.Class_ID;
''')
prog('array', '''
arr[0] = 1;
arr[1] = arr[0] + 1;
m[1][2] = 3;
x = m[1][2] + arr[1];
''')
prog('invocations', '''
x = ::Function(P1: 1, P2: 2);
::Function(P1: x, P2: x + 1);
y = Class::Class_Based_Operation(P1: 1, P2: 2);
Class::Transform_Function();
transform Class::Transform_Function();
LOG::LogInfo(message: "hello");
bridge LOG::LogInfo(message: "again");
''')
prog('instance_invocation', '''
create object instance c of Class;
z = c.Instance_Based_Operation(P1: 3, P2: 4);
c.Instance_Based_Operation(P1: z, P2: 0);
transform w = c.Instance_Based_Operation(P1: 1, P2: 1);
''')
prog('invocation_in_expr', '''
create object instance c of Class;
if 3 != Class::Class_Based_Operation(P1: 1, P2: 2)
  x = ::Function(P1: 1, P2: 2) + c.Instance_Based_Operation(P1: 1, P2: 1);
end if;
''')
prog('enum_const', '''
e = My_Enum::E1;
if e == My_Enum::E2
  e = My_Enum::E3;
end if;
p = My_Constants::PI;
''')
prog('const_bare', '''
if 3.0 > PI
  x = PI;
end if;
''')
prog('returns', '''
x = 1;
if x == 1
  return x + 1;
end if;
return 0;
''')
prog('control_stop', '''
x = 1;
control stop;
''')
prog('self_access', '''
x = self.Derived_Attribute;
select many os related by self->Other_Class[R2];
relate self to self across R1.'one' using self;
y = self.Instance_Based_Operation(P1: 1, P2: 2);
''', 's')
prog('param_self', '''
return param.P1 + param.P2 + self.Derived_Attribute;
''', 'ps')
prog('strings_reals', '''
s = "a" + "b";
t = s == "ab";
r = 1.5 + 2.25;
u = r > 3.0;
''')
prog('nested_blocks', '''
i = 0;
while i < 3
  select many cs from instances of Class;
  for each c in cs
    if c.Derived_Attribute > i
      j = 0;
      while j < 2
        j = j + 1;
      end while;
    else
      break;
    end if;
  end for;
  i = i + 1;
end while;
''')
prog('empty_body', '')

prog('ragged_elifs', '''
x = 0;
if x == 0
  x = 1;
      elif x == 1
  x = 2;
    elif x == 2
  x = 3;
elif x == 3
  x = 4;
else
  x = 5;
end if;
''')
prog('compact_elifs', '''
x = 0;
if (x == 0) x = 1; elif (x == 1) x = 2;
elif (x == 2) x = 3; end if;
''')
prog('case_distinct_vars', '''
total = 1;
Total = 10;
TOTAL = total + Total;
create object instance d of Class;
create object instance D of Other_Class;
relate d to D across R2;
x = D.Class_ID;
''')
prog('instance_handles', '''
select any c from instances of Class;
d = c;
select many cs from instances of Class;
ds = cs;
e = d;
es = ds;
n = cardinality es;
if not_empty e
  n = n + 1;
end if;
''')
prog('nested_invocations', '''
x = ::Function(P1: ::Function(P1: 1, P2: 2), P2: 3);
::Function(P1: Class::Class_Based_Operation(P1: x, P2: ::Function(P1: 4, P2: 5)), P2: 6);
create object instance c of Class;
y = c.Instance_Based_Operation(P1: ::Function(P1: x, P2: c.Instance_Based_Operation(P1: 7, P2: 8)), P2: 9);
''')
prog('const_same_name', '''
p = My_Constants::PI;
q = Other_Constants::PI;
if q > Other_Constants::PI - My_Constants::PI
  q = Other_Constants::PI + Other_Constants::TAU;
end if;
''')
prog('select_chain_classes', '''
select any o from instances of Other_Class;
select one k related by o->Class[R2];
select many ls related by o->Class[R2]->Assoc[R1.'one'];
select any l related by o->Class[R2]->Assoc[R1.'other'];
select many ks related by o->Class[R2]->Assoc[R1.'one']->Class[R1.'one'];
for each kk in ks
  select many oo related by kk->Other_Class[R2];
end for;
k2 = k;
ls2 = ls;
''')
prog('bridge_values', '''
t = TIM::current_clock();
d = TIM::create_date(second: 1, minute: 2, hour: 3, day: 4, month: 5, year: 2000);
s = TIM::get_second(date: d) + TIM::get_minute(date: TIM::current_date());
LOG::LogTime(t: t, message: "now");
LOG::LogInteger(message: s);
LOG::LogReal(r: 1.5, message: "r");
ARCH::shutdown();
''')
prog('bridge_params', '''
x = param.message;
LOG::LogSuccess(message: param.message + "!");
if param.message == "stop"
  return;
end if;
''', 'b')
prog('relate_phrase_simple', '''
create object instance c of Class;
create object instance o of Other_Class;
relate c to o across R2.'has';
unrelate c from o across R2.'has';
''')
prog('set_operators', '''
select many cs from instances of Class;
select many ds from instances of Class where (selected.ID == 1);
us = cs | ds;
ns = cs & ds;
ms = cs - ds;
n = cardinality us + cardinality (cs | ds);
''')
prog('empty_statements', '''
x = 1;; y = 2;
if x == 1
  ;
  x = 2;;
  y = 3;
end if;;
while x < 3
  x = x + 1;;;
end while;
return;
''')
prog('struct_members', '''
x = param.seg.M1 + param.seg.M2;
r = param.seg.length;
s = param.seg;
y = s.M3;
q = s.length + 1.5;
arr[0] = 1;
n = arr.length;
return x;
''', 't')
prog('loop_control_neighbours', '''
i = 0;
y = 0;
while i < 10
  i = i + 1;
  if i == 3
    y = y + 100;
    continue;
  end if;
  if i == 7
    y = y + 1;
    break;
  elif i == 8
    continue;
    y = 5;
  else
    y = y + 2;
    continue;
  end if;
  y = y + 3;
end while;
select many cs from instances of Class;
for each c in cs
  y = y + 1;
  break;
  y = y + 2;
end for;
''')
prog('selected_two_classes', '''
select any a from instances of Class where (selected.ID == 1);
select any b from instances of Other_Class where (selected.ID == 2);
select many cs from instances of Assoc where (selected.One_ID == 1);
select many ds from instances of Other_Class where (selected.Class_ID == 1 and selected.ID != 3);
select any e from instances of Class where (selected.ID != 1);
''')
prog('deep_index', '''
x[1][2] = 5;
y[1][2][3] = 6;
z = x[1][2] + y[1][2][3];
''')
prog('names_inside_keywords', '''
create object instance inst of Class;
select any a from instances of Class;
select many man from instances of Class;
select one o related by a->Other_Class[R2];
for each ea in man
  x = 1;
end for;
select any f from instances of Class where (selected.ID == 1);
create object instance ob of Other_Class;
''')
prog('not_empty_plain', '''
select many dogs from instances of Class;
select any dog from instances of Class;
if (not_empty dogs)
  x = 1;
end if;
y = not_empty dog;
z = empty dogs;
n = cardinality dogs;
w = not y;
''')
