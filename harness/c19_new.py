"""C19: typed defaults, argument precedence, fresh non-null identifiers, generators.
Supplied attribute values and generator state are symbolic-through (never hashed); the argument
pattern (number of positionals, keyword subset, peek/next sequence) is case-split."""
import xtuml
from hlib import POST, PARAMS, cs, csb, case, notrace, stub_str

stub_str()
LAST_DIFF = None
ATTRS = [('b', 'boolean'), ('i', 'integer'), ('r', 'real'), ('s', 'string'), ('u', 'unique_id'),
         ('u2', 'unique_id')]
NAMES = [n for n, _ in ATTRS]
DEFAULTS = {'b': False, 'i': 0, 'r': 0.0, 's': ''}
GEN = PARAMS.get('gen', 'integer')


class LoggingGen(object):
    """a user-supplied generator (any iterator works): hands out the given values, logs them"""
    def __init__(self, values):
        self.values = list(values)
        self.out = []

    def __iter__(self):
        return self

    def __next__(self):
        v = self.values.pop(0)
        self.out.append(v)
        return v


class Spy(object):
    """wraps the library's own generator, logging what it hands out"""
    def __init__(self, inner):
        self.inner = inner
        self.out = []

    def __iter__(self):
        return self

    def __next__(self):
        v = next(self.inner)
        self.out.append(v)
        return v


def mk(gen):
    m = xtuml.MetaModel(gen)
    m.define_class('T', [('Id', 'unique_id')])
    m.define_class('K', ATTRS + [('T_Id', 'unique_id')])
    ass = m.define_association(1, 'K', ['T_Id'], True, True, '', 'T', ['Id'], False, True, '')
    ass.formalize()
    return m


def same(x, y):
    if isinstance(y, bool) or isinstance(x, bool):
        return (x is True and y is True) or (x is False and y is False) or \
               (isinstance(x, bool) and isinstance(y, bool) and x == y)
    return type(x) == type(y) and x == y or (x == y)


def check_new(npos: int, kwmask: int, pb: bool, pi: int, pu: int, pu2: int,
              kb: bool, ki: int, ku: int, ku2: int, g0: int, g1: int, g2: int, g3: int) -> bool:
    """
    pre: 0 <= npos <= 6 and 0 <= kwmask < 64
    pre: 0 < g0 < g1 < g2 < g3
    post: POST(_)
    """
    global LAST_DIFF
    pr, kr, ps, ks = -1.5, 2.25, "p'os", 'kw'     # reals/strings are only stored: fixed values
    npos = cs(npos, 0, 6); kwmask = cs(kwmask, 0, 63)
    if GEN == 'user':
        gen = LoggingGen([g0, g1, g2, g3])
    else:
        with notrace():
            gen = Spy(xtuml.IntegerGenerator())
    with notrace():
        m = mk(gen)
    pos = [pb, pi, pr, ps, pu, pu2][:npos]
    kwv = [kb, ki, kr, ks, ku, ku2]
    kw = {NAMES[n]: kwv[n] for n in range(6) if (kwmask >> n) & 1}
    before = list(gen.out)
    inst = m.new('K', *pos, **kw)
    case('new', GEN, npos, kwmask)
    handed = gen.out[len(before):]
    defaulted_ids = []
    for n, (name, ty) in enumerate(ATTRS):
        got = getattr(inst, name)
        if (kwmask >> n) & 1:
            exp = kwv[n]
        elif n < npos:
            exp = pos[n]
        elif ty == 'unique_id':
            defaulted_ids.append(got)
            continue
        else:
            exp = DEFAULTS[name]
            if type(got) is not type(exp) and not isinstance(got, type(exp)):
                LAST_DIFF = ('default type', name, repr(got)); return False
        if not (got == exp):
            LAST_DIFF = ('value', name, repr(got), repr(exp)); return False
    # defaulted ids come from the generator, are non-null and pairwise distinct
    for d in defaulted_ids:
        if d is None or d == 0:
            LAST_DIFF = ('null id',); return False
        if not any(d is h or d == h for h in handed):
            LAST_DIFF = ('id not from generator',); return False
    if len(defaulted_ids) == 2 and defaulted_ids[0] == defaulted_ids[1]:
        LAST_DIFF = ('repeated id',); return False
    if inst.T_Id is not None:
        LAST_DIFF = ('unset referential attribute reads', repr(inst.T_Id)); return False
    if list(m.select_many('K')) != [inst]:
        LAST_DIFF = ('pool',); return False
    return True


def check_history(p1: int, k1: int, p2: int, k2: int, p3: int, k3: int, u1: int, u2: int) -> bool:
    """
    pre: 0 <= p1 <= 2 and 0 <= p2 <= 2 and 0 <= p3 <= 2 and 0 <= k1 < 4 and 0 <= k2 < 4 and 0 <= k3 < 4
    post: POST(_)
    """
    # three creations on one metamodel (class with two id attributes); explicit ids are symbolic.
    # every DEFAULTED id is non-null and differs from every other defaulted id of the metamodel.
    global LAST_DIFF
    pats = [(cs(p1, 0, 2), cs(k1, 0, 3)), (cs(p2, 0, 2), cs(k2, 0, 3)), (cs(p3, 0, 2), cs(k3, 0, 3))]
    with notrace():
        m = xtuml.MetaModel(xtuml.IntegerGenerator() if GEN == 'integer' else None)
        m.define_class('J', [('u', 'unique_id'), ('u2', 'unique_id'), ('i', 'integer')])
    defaulted = []
    for (npos, kwmask) in pats:
        pos = [u1, u2][:npos]
        kw = {}
        if kwmask & 1: kw['u'] = u2
        if kwmask & 2: kw['u2'] = u1
        inst = m.new('J', *pos, **kw)
        for n, name in enumerate(['u', 'u2']):
            if not ((kwmask >> n) & 1) and not (n < npos):
                defaulted.append(getattr(inst, name))
        if inst.i != 0:
            LAST_DIFF = ('integer default',); return False
    case('history', GEN, pats)
    for a in range(len(defaulted)):
        if defaulted[a] is None or defaulted[a] == 0:
            LAST_DIFF = ('null id', a); return False
        for b in range(a):
            if defaulted[a] == defaulted[b]:
                LAST_DIFF = ('repeated id', a, b, defaulted[a]); return False
    return True


def check_intgen(c: int, ops: int, n: int) -> bool:
    """
    pre: 0 <= n <= 4 and 0 <= ops < 256
    post: POST(_)
    """
    # inductive step on the generator state: _current = c (symbolic, unbounded), then up to four
    # calls; two bits per call: 0 = peek, 1 = next() / next(g), 2 = draw through the iterator protocol and
    # abandon the iteration (for x in g: break), 3 = next(iter(g))
    global LAST_DIFF
    n = cs(n, 0, 4); ops = cs(ops, 0, 255)
    if ops >> (2 * n):
        return None
    g = xtuml.IntegerGenerator()
    first = g.peek()
    if first != 1:
        LAST_DIFF = ('fresh generator starts at', first); return False
    g._current = c
    cur = c
    for k in range(n):
        o = (ops >> (2 * k)) & 3
        if o == 2:
            v = None
            for x in g:
                v = x
                break
            if v != cur:
                LAST_DIFF = ('for .. in generator', k); return False
            cur = cur + 1
        elif o == 3:
            v = next(iter(g))
            if v != cur:
                LAST_DIFF = ('next(iter(generator))', k); return False
            cur = cur + 1
        elif o == 1:
            v = g.next() if k % 2 == 0 else next(g)
            if v != cur:
                LAST_DIFF = ('next', k); return False
            cur = cur + 1
        else:
            v = g.peek()
            if v != cur:
                LAST_DIFF = ('peek', k); return False
    case('intgen', n, ops)
    if g.peek() != cur or g.peek() != cur:
        LAST_DIFF = ('final peek',); return False
    return True


def check_intgen_fresh(n: int) -> bool:
    """
    pre: 1 <= n <= 6
    post: POST(_)
    """
    global LAST_DIFF
    n = cs(n, 1, 6)
    g = xtuml.IntegerGenerator()
    got = [next(g) for _ in range(n)]
    case('fresh', n)
    if got != list(range(1, n + 1)):
        LAST_DIFF = ('sequence', got); return False
    return True


def check_swap(k: int, a1: int, a2: int, b1: int, b2: int, b3: int) -> bool:
    """
    pre: 0 <= k <= 2 and 0 < a1 < a2 < b1 < b2 < b3
    post: POST(_)
    """
    # "every defaulted unique id comes from the metamodel's generator": after the metamodel's generator is
    # replaced, classes defined before AND after the replacement draw from the new one
    global LAST_DIFF
    k = cs(k, 0, 2)
    ga, gb = LoggingGen([a1, a2]), LoggingGen([b1, b2, b3])
    m = xtuml.MetaModel(ga)
    m.define_class('Q', [('Id', 'unique_id'), ('n', 'integer')])
    first = [m.new('Q').Id for _ in range(k)]
    m.id_generator = gb
    m.define_class('R', [('Id', 'unique_id')])
    try:
        q, r, q2 = m.new('Q'), m.new('R'), m.new('Q', n=5)
    except IndexError:
        case('swap', k)
        LAST_DIFF = ('an id was drawn from the REPLACED generator (exhausted)', ga.out, gb.out); return False
    case('swap', k)
    if first != [a1, a2][:k] or ga.out != [a1, a2][:k]:
        LAST_DIFF = ('ids before the replacement', first, ga.out); return False
    if [q.Id, r.Id, q2.Id] != [b1, b2, b3] or gb.out != [b1, b2, b3]:
        LAST_DIFF = ('ids after the generator was replaced do not come from the metamodel\'s generator', [q.Id, r.Id, q2.Id], gb.out); return False
    return True


def check_uuidgen(v1: int, v2: int, v3: int, ops: int) -> bool:
    """
    pre: 0 <= v1 < 2 ** 128 and 0 <= v2 < 2 ** 128 and 0 <= v3 < 2 ** 128
    pre: (v1 >> 76) & 15 == 4 and (v1 >> 62) & 3 == 2
    pre: (v2 >> 76) & 15 == 4 and (v2 >> 62) & 3 == 2
    pre: (v3 >> 76) & 15 == 4 and (v3 >> 62) & 3 == 2
    pre: 0 <= ops < 4
    post: POST(_)
    """
    # uuid.uuid4 is stubbed by its contract: an arbitrary 128-bit value with the RFC 4122
    # version/variant bits set (pairwise freshness of uuid4 itself is assumed, not proved)
    global LAST_DIFF
    import uuid

    class U(object):
        def __init__(self, i):
            self.int = i
    vals = [v1, v2, v3]
    orig = uuid.uuid4
    uuid.uuid4 = lambda: U(vals.pop(0))
    try:
        ops = cs(ops, 0, 3)
        g = xtuml.UUIDGenerator()
        a = g.peek()
        b = g.peek() if ops & 1 else a
        c = g.next()
        d = g.peek() if ops & 2 else None
        e = next(g)
    finally:
        uuid.uuid4 = orig
    case('uuidgen', ops)
    if not (a == v1 and b == v1 and c == v1 and e == v2 and (d is None or d == v2)):
        LAST_DIFF = ('uuid generator sequence',); return False
    if c == 0 or e == 0:
        LAST_DIFF = ('null id',); return False
    return True


TYPES = ['boolean', 'BOOLEAN', 'Integer', 'REAL', 'String', 'Unique_Id', 'unique_id',
         'int', 'uuid', 'blob', '', 'strings', 'unique id', 'same_as<Base_Attribute>', 'inst_ref<Object>', 'void']
NTYPES = len(TYPES)


def check_type(ti: int, how: int) -> bool:
    """
    pre: 0 <= ti < NTYPES and 0 <= how < 3
    post: POST(_)
    """
    # how: 0 = no argument, 1 = value given positionally, 2 = value given by keyword
    global LAST_DIFF
    ti = cs(ti, 0, NTYPES - 1); how = cs(how, 0, 2)
    ty = TYPES[ti]
    m = xtuml.MetaModel(xtuml.IntegerGenerator())
    m.define_class('Q', [('x', ty)])
    exc = None
    inst = None
    try:
        inst = m.new('Q') if how == 0 else (m.new('Q', 1) if how == 1 else m.new('Q', x=1))
    except xtuml.MetaException:
        exc = 'meta'
    case('type', ty, how)
    known = ty.upper() in ('BOOLEAN', 'INTEGER', 'REAL', 'STRING', 'UNIQUE_ID')
    if known:
        if exc is not None:
            LAST_DIFF = ('known type rejected', ty); return False
        exp = {'BOOLEAN': False, 'INTEGER': 0, 'REAL': 0.0, 'STRING': '', 'UNIQUE_ID': 1}[ty.upper()]
        if how == 0 and (inst.x != exp or type(inst.x) is not type(exp)):
            LAST_DIFF = ('default', ty, repr(inst.x)); return False
    elif exc != 'meta':
        LAST_DIFF = ('unknown type accepted', ty); return False
    return True


class SkipGen(xtuml.IntegerGenerator):
    """a user generator derived from the library's own: overrides the public next() to step over reserved ids"""
    def __init__(self, reserved):
        xtuml.IntegerGenerator.__init__(self)
        self.reserved = reserved
        self.out = []

    def next(self):
        v = xtuml.IntegerGenerator.next(self)
        while v == self.reserved:
            v = xtuml.IntegerGenerator.next(self)
        self.out.append(v)
        return v


def check_subclass(res: int, n: int) -> bool:
    """
    pre: 1 <= res <= 4 and 1 <= n <= 4
    post: POST(_)
    """
    # "every defaulted unique id comes from the metamodel's generator": a generator that specialises next()
    global LAST_DIFF
    n = cs(n, 1, 4)
    g = SkipGen(res)
    m = xtuml.MetaModel(g)
    m.define_class('Q', [('Id', 'unique_id'), ('n', 'integer')])
    ids = [m.new('Q').Id for _ in range(n)]
    case('subclass', n)
    exp = [v for v in range(1, n + 2) if v != res][:n]
    for got, e in zip(ids, exp):
        if got != e:
            LAST_DIFF = ('defaulted ids are not those the metamodel\'s generator hands out through its next()', ids, exp, g.out); return False
    if len(g.out) != n:
        LAST_DIFF = ('the generator\'s next() was not used for every defaulted id', ids, g.out); return False
    return True


EDITS = [('insert', 0, 'x', 'integer'), ('insert', 1, 'x', 'string'), ('insert', 2, 'x', 'boolean'), ('append', None, 'x', 'real'),
         ('insert', 1, 'x', 'unique_id'), ('delete', None, 'i', None), ('insert', 1, 'x', 'blob'), ('append', None, 'x', 'blob')]


def check_edit(e: int, before: int, pa: int, pb: int) -> bool:
    """
    pre: 0 <= e < 8 and 0 <= before <= 2
    post: POST(_)
    """
    # creations BEFORE an attribute is inserted / appended / deleted must not freeze the attribute layout: afterwards
    # the new attribute gets the default of its type, positional arguments follow the edited attribute order, an unknown type is rejected
    global LAST_DIFF
    e = cs(e, 0, 7); before = cs(before, 0, 2)
    kind, idx, name, ty = EDITS[e]
    m = xtuml.MetaModel(xtuml.IntegerGenerator())
    mc = m.define_class('Q', [('i', 'integer'), ('s', 'string')])
    for _ in range(before):
        m.new('Q', 7)
    attrs = [('i', 'integer'), ('s', 'string')]
    if kind == 'insert':
        mc.insert_attribute(idx, name, ty); attrs.insert(idx, (name, ty))
    elif kind == 'append':
        mc.append_attribute(name, ty); attrs.append((name, ty))
    else:
        mc.delete_attribute(name); attrs = [a for a in attrs if a[0] != name]
    case('edit', e, before)
    defaults = {'integer': 0, 'string': '', 'boolean': False, 'real': 0.0}
    try:
        q0 = m.new('Q')
        q1 = m.new('Q', pa)
    except xtuml.MetaException:
        if ty == 'blob':
            return True
        LAST_DIFF = ('creation rejected after a legitimate attribute edit', EDITS[e], before); return False
    if ty == 'blob':
        LAST_DIFF = ('attribute of unknown type accepted after the edit', EDITS[e], before); return False
    for n, (an, at) in enumerate(attrs):
        try:
            v0, v1 = getattr(q0, an), getattr(q1, an)
        except AttributeError:
            LAST_DIFF = ('attribute added after the first creation has no default', an, EDITS[e], before); return False
        if at == 'unique_id':
            if v0 is None or v0 == 0 or (n != 0 and (v1 is None or v1 == 0 or v1 == v0)):
                LAST_DIFF = ('defaulted id after the edit', an, EDITS[e], before); return False
        else:
            if not same(v0, defaults[at]):
                LAST_DIFF = ('default after the edit', an, EDITS[e], before); return False
            if n != 0 and not same(v1, defaults[at]):
                LAST_DIFF = ('default after the edit (second creation)', an, EDITS[e], before); return False
        if n == 0 and not (v1 == pa):
            LAST_DIFF = ('the first positional argument did not go to the first attribute of the edited order', an, EDITS[e], before); return False
    return True
