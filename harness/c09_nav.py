"""C09 (navigation): chains of association navigations from None / an instance / a set / a
generator, through an association class, a reflexive association with phrases, subtypes, with
trailing filters.  Link state = solver-chosen index into the table of valid link matrices of the
associations the chain crosses; filter operands are symbolic-through."""
import itertools
import xtuml
from xtuml import navigate_many as many, navigate_one as one, navigate_any as any_, where_eq, order_by
from hlib import POST, PARAMS, cs, case, notrace, stub_str

stub_str()
T = PARAMS.get('template', 'a_B')
LAST_DIFF = None
NA, NB, ND, NL = 2, 3, 2, 2


def r1_states():      # each B -> none | a0 | a1
    return list(itertools.product(range(-1, NA), repeat=NB))


def r2_states():      # partial injective successor maps over the B's (chains and rings)
    out = []
    for succ in itertools.product(range(-1, NB), repeat=NB):
        tg = [s for s in succ if s >= 0]
        if len(set(tg)) == len(tg):
            out.append(succ)
    return out


def r3_states():      # each L -> unlinked | (a, d)
    # each link instance: unlinked, linked to both sides, or HALF-FORMED (one side only: the state between
    # the two relates of "relate .. using", or after a one-sided unrelate)
    opts = [None] + [(a, d) for a in range(NA) for d in range(ND)] + [(a, None) for a in range(NA)] + [(None, d) for d in range(ND)]
    return list(itertools.product(opts, repeat=NL))


def r4_states():      # X -> none|a, Y -> none|a, not both on the same supertype instance
    out = []
    for x in range(-1, NA):
        for y in range(-1, NA):
            if x >= 0 and x == y:
                continue
            out.append((x, y))
    return out


USES = {
    'a_B': ['r1'], 'b_A': ['r1'], 'setA_B': ['r1'], 'genA_B': ['r1'], 'listB_A': ['r1'],
    'a_B_succ': ['r1', 'r2'], 'b_prec_prec': ['r2'], 'b_succ': ['r2'], 'a_B_succ_A_B': ['r1', 'r2'],
    'a_D': ['r3'], 'd_A': ['r3'], 'a_L_D': ['r3'], 'l_A': ['r3'], 'setA_D_A': ['r3'],
    'subtype': ['r4'], 'hetero_XY_A': ['r4'], 'hetero_YX_A': ['r4'], 'filter_gt': ['r1'], 'filter_eq': ['r1'], 'filter_order': ['r1'],
    'none': [], 'invalid': [],
}[T]
SPACES = {'r1': r1_states(), 'r2': r2_states(), 'r3': r3_states(), 'r4': r4_states()}
STATES = list(itertools.product(*[SPACES[u] for u in USES]))
NS = len(STATES)


def mk():
    m = xtuml.MetaModel(xtuml.IntegerGenerator())
    m.define_class('A', [('Id', 'unique_id')])
    m.define_class('B', [('Id', 'unique_id'), ('A_Id', 'unique_id'), ('Prev_Id', 'unique_id'), ('v', 'integer')])
    m.define_class('D', [('Id', 'unique_id')])
    m.define_class('L', [('A_Id', 'unique_id'), ('D_Id', 'unique_id')])
    m.define_class('X', [('Id', 'unique_id')])
    m.define_class('Y', [('Id', 'unique_id')])
    for args in [(1, 'B', ['A_Id'], True, True, '', 'A', ['Id'], False, True, ''),
                 (2, 'B', ['Prev_Id'], False, True, 'precedes', 'B', ['Id'], False, True, 'succeeds'),
                 (3, 'L', ['A_Id'], True, True, '', 'A', ['Id'], False, False, ''),
                 (3, 'L', ['D_Id'], True, True, '', 'D', ['Id'], False, False, ''),
                 (4, 'X', ['Id'], False, True, '', 'A', ['Id'], False, False, ''),
                 (4, 'Y', ['Id'], False, True, '', 'A', ['Id'], False, False, '')]:
        m.define_association(*args).formalize()
    return m


class Ref(object):
    """reference relational model: ordered adjacency lists, filled in the order relate() is called"""
    def __init__(self):
        self.adj = {}

    def link(self, x, y, kx, ky, rel, phrase_xy, phrase_yx):
        self.adj.setdefault((id(x), ky, rel, phrase_xy), []).append(y)
        self.adj.setdefault((id(y), kx, rel, phrase_yx), []).append(x)

    def step(self, handle, kind, rel, phrase=''):
        out = []
        for x in handle:
            for y in self.adj.get((id(x), kind, rel, phrase), []):
                if not any(y is z for z in out):
                    out.append(y)
        return out


def build(state):
    m = mk()
    ref = Ref()
    P = {'A': [m.new('A') for _ in range(NA)], 'B': [m.new('B') for _ in range(NB)],
         'D': [m.new('D') for _ in range(ND)], 'L': [m.new('L') for _ in range(NL)],
         'X': [m.new('X')], 'Y': [m.new('Y')]}
    for u, st in zip(USES, state):
        if u == 'r1':
            for b, a in enumerate(st):
                if a >= 0:
                    xtuml.relate(P['B'][b], P['A'][a], 1)
                    if PARAMS.get('rerelate'):
                        # link history: the pair just related is unrelated and related again (the final links and their
                        # order are the same; the containers behind them have seen a removal of their last element)
                        xtuml.unrelate(P['B'][b], P['A'][a], 1)
                        xtuml.relate(P['B'][b], P['A'][a], 1)
                    ref.link(P['B'][b], P['A'][a], 'B', 'A', 'R1', '', '')
        elif u == 'r2':
            for b, s in enumerate(st):
                if s >= 0:
                    # navigating from b across 'precedes' reaches s
                    xtuml.relate(P['B'][b], P['B'][s], 2, 'precedes')
                    ref.link(P['B'][b], P['B'][s], 'B', 'B', 'R2', 'precedes', 'succeeds')
        elif u == 'r3':
            for l, ad in enumerate(st):
                if ad is not None:
                    a, d = ad
                    if a is not None:
                        xtuml.relate(P['L'][l], P['A'][a], 3)
                        ref.link(P['L'][l], P['A'][a], 'L', 'A', 'R3', '', '')
                    if d is not None:
                        xtuml.relate(P['D'][d], P['L'][l], 3)
                        ref.link(P['L'][l], P['D'][d], 'L', 'D', 'R3', '', '')
        elif u == 'r4':
            x, y = st
            if x >= 0:
                xtuml.relate(P['X'][0], P['A'][x], 4)
                ref.link(P['X'][0], P['A'][x], 'X', 'A', 'R4', '', '')
            if y >= 0:
                xtuml.relate(P['A'][y], P['Y'][0], 4)
                ref.link(P['Y'][0], P['A'][y], 'Y', 'A', 'R4', '', '')
    return m, P, ref


def same_seq(got, exp):
    return len(got) == len(exp) and all(a is b for a, b in zip(got, exp))


def check(si: int, i: int, v0: int, v1: int, v2: int, thr: int) -> bool:
    """
    pre: 0 <= si < NS and 0 <= i < 3
    post: POST(_)
    """
    global LAST_DIFF
    state = STATES[cs(si, 0, NS - 1)]
    i = cs(i, 0, 2)
    with notrace():
        m, P, ref = build(state)
    for n, b in enumerate(P['B']):
        b.v = [v0, v1, v2][n]
    A, B, D, Lk = P['A'], P['B'], P['D'], P['L']
    ai = A[i % NA]; bi = B[i % NB]; di = D[i % ND]; li = Lk[i % NL]
    manyres = None; oneres = None; anyres = None; exp = None
    if T == 'a_B':
        manyres = many(ai).B[1](); oneres = one(ai).B[1](); anyres = any_(ai).B[1]()
        exp = ref.step([ai], 'B', 'R1')
    elif T == 'b_A':
        manyres = many(bi).A[1](); oneres = one(bi).A[1](); anyres = any_(bi).nav('A', 'R1')()
        exp = ref.step([bi], 'A', 'R1')
    elif T == 'setA_B':
        manyres = many(m.select_many('A')).B[1](); anyres = any_(m.select_many('A')).B[1]()
        exp = ref.step(A, 'B', 'R1')
    elif T == 'genA_B':
        manyres = many(a for a in reversed(A)).nav('B', 1)(); anyres = any_(a for a in reversed(A)).B[1]()
        exp = ref.step(A[::-1], 'B', 'R1')
    elif T == 'listB_A':
        manyres = many(list(B)).A[1](); anyres = any_(list(B)).A[1]()
        exp = ref.step(B, 'A', 'R1')
    elif T == 'a_B_succ':
        manyres = many(ai).B[1].B[2, 'succeeds'](); anyres = any_(ai).B[1].B[2, 'succeeds']()
        exp = ref.step(ref.step([ai], 'B', 'R1'), 'B', 'R2', 'succeeds')
    elif T == 'b_prec_prec':
        manyres = many(bi).B[2, 'precedes'].B[2, 'precedes'](); oneres = one(bi).B[2, 'precedes'].B[2, 'precedes']()
        exp = ref.step(ref.step([bi], 'B', 'R2', 'precedes'), 'B', 'R2', 'precedes')
    elif T == 'b_succ':
        manyres = many(bi).B[2, 'succeeds'](); oneres = one(bi).nav('B', 'R2', 'succeeds')()
        exp = ref.step([bi], 'B', 'R2', 'succeeds')
    elif T == 'a_B_succ_A_B':
        manyres = many(ai).B[1].B[2, 'succeeds'].A[1].B[1]()
        anyres = any_(ai).B[1].B[2, 'succeeds'].A[1].B[1]()
        exp = ref.step(ref.step(ref.step(ref.step([ai], 'B', 'R1'), 'B', 'R2', 'succeeds'), 'A', 'R1'), 'B', 'R1')
    elif T == 'a_D':
        manyres = many(ai).D[3](); anyres = any_(ai).D[3]()
        exp = ref.step(ref.step([ai], 'L', 'R3'), 'D', 'R3')
    elif T == 'd_A':
        manyres = many(di).A[3](); anyres = any_(di).A[3]()
        exp = ref.step(ref.step([di], 'L', 'R3'), 'A', 'R3')
    elif T == 'a_L_D':
        manyres = many(ai).L[3].D[3](); anyres = any_(ai).L[3].D[3]()
        exp = ref.step(ref.step([ai], 'L', 'R3'), 'D', 'R3')
    elif T == 'l_A':
        manyres = many(li).A[3](); oneres = one(li).A[3]()
        exp = ref.step([li], 'A', 'R3')
    elif T == 'setA_D_A':
        manyres = many(m.select_many('A')).D[3].A[3]()
        exp = ref.step(ref.step(ref.step(ref.step(A, 'L', 'R3'), 'D', 'R3'), 'L', 'R3'), 'A', 'R3')
    elif T == 'subtype':
        sub = xtuml.navigate_subtype(ai, 4)
        e = ref.step([ai], 'X', 'R4') + ref.step([ai], 'Y', 'R4')
        case(T, state, i)
        if (sub is None) != (not e) or (e and sub is not e[0]) or len(e) > 1:
            LAST_DIFF = ('subtype', state, i); return False
        if xtuml.navigate_subtype(None, 4) is not None:
            LAST_DIFF = ('subtype of None',); return False
        return True
    elif T in ('hetero_XY_A', 'hetero_YX_A'):
        # a handle mixing instances of different classes (two subtypes navigated to their common supertype)
        hs = [P['X'][0], P['Y'][0]] if T == 'hetero_XY_A' else [P['Y'][0], P['X'][0]]
        manyres = many(hs).A[4](); anyres = any_(xtuml.QuerySet(hs)).A[4]()
        exp = []
        for h in hs:
            for a in ref.step([h], 'A', 'R4'):
                if not any(a is z for z in exp):
                    exp.append(a)
    elif T == 'filter_gt':
        manyres = many(ai).B[1](lambda sel: sel.v > thr); anyres = any_(ai).B[1](lambda sel: sel.v > thr)
        exp = [b for b in ref.step([ai], 'B', 'R1') if b.v > thr]
    elif T == 'filter_eq':
        manyres = many(ai).B[1](where_eq(v=thr)); anyres = any_(ai).B[1](where_eq(V=thr))
        exp = [b for b in ref.step([ai], 'B', 'R1') if b.v == thr]
    elif T == 'filter_order':
        manyres = many(ai).B[1](order_by('v')); anyres = any_(ai).B[1](order_by('v'))
        e = ref.step([ai], 'B', 'R1')
        exp = []
        for b in e:
            pos = len(exp)
            for n, o in enumerate(exp):
                if b.v < o.v:
                    pos = n; break
            exp.insert(pos, b)
    elif T == 'none':
        manyres = many(None).B[1](); oneres = one(None).B[1](); anyres = any_(None).A[1]()
        exp = []
    elif T == 'invalid':
        case(T, i)
        try:
            many(5)
        except xtuml.MetaException:
            return True
        LAST_DIFF = ('navigation from a non-iterable accepted',); return False
    case(T, state, i)
    if not isinstance(manyres, xtuml.QuerySet) or not same_seq(list(manyres), exp):
        LAST_DIFF = ('many', T, state, i, len(list(manyres)), len(exp)); return False
    first = exp[0] if exp else None
    for r, used in ((oneres, T in ('a_B', 'b_A', 'b_prec_prec', 'b_succ', 'l_A', 'none')),
                    (anyres, T not in ('b_prec_prec', 'b_succ', 'l_A', 'setA_D_A'))):
        if used and r is not first:
            LAST_DIFF = ('single-result form', T, state, i); return False
    return True
