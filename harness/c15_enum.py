"""C15 (enumerators / constants): enumerators read as their position in the modelled order (R56
chain) and constants as their modelled values, independent of the order of rows in the model file."""
import itertools
import os
import re
import xtuml
import bridgepoint
from bridgepoint import ooaofooa
from hlib import POST, PARAMS, cs, case, known, notrace, stub_str

stub_str()
LAST_DIFF = None
FIXTURE = os.path.join(os.environ.get('VERIF_ROOT', '/verif'), 'fixtures', 'interp_model.xtuml')
with open(FIXTURE) as f:
    TEXT = f.read()


def split_statements(text):
    """statement texts by the offsets the real loader records for each statement"""
    l = xtuml.ModelLoader()
    l.input(text)
    offs = sorted(st.offset for st in l.statements) + [len(text)]
    return [text[a:b] for a, b in zip(offs, offs[1:])]


with notrace():
    STMTS = split_statements(TEXT)
ENUM_IDX = [i for i, s in enumerate(STMTS) if s.lstrip().startswith('INSERT INTO S_ENUM')]
PERMS = list(itertools.permutations(range(len(ENUM_IDX))))
NP = len(PERMS) * 3


def check(pi: int) -> bool:
    """
    pre: 0 <= pi < NP
    post: POST(_)
    """
    global LAST_DIFF
    pi = cs(pi, 0, NP - 1)
    perm = PERMS[pi % len(PERMS)]
    rot = pi // len(PERMS)
    with notrace():
        st = list(STMTS)
        for dst, src in zip(ENUM_IDX, perm):
            st[dst] = STMTS[ENUM_IDX[src]]
        if rot == 1:
            st = st[len(st) // 2:] + st[:len(st) // 2]
        elif rot == 2:
            st = st[::-1]
        loader = ooaofooa.Loader()
        loader.input(''.join(st))
        m = loader.build_metamodel()
    dom = ooaofooa.mk_component(m)
    case('enum', perm, rot)
    e = dom.find_symbol('My_Enum')
    got = (e.E1, e.E2, e.E3)
    if got != (0, 1, 2):
        if known('C15/enum-row-order'):
            return None
        LAST_DIFF = ('enumerator values depend on row order', got, perm, rot); return False
    pi_val = dom.find_symbol('PI')
    modelled = m.select_one('CNST_LSC').Value
    if repr(pi_val) != modelled and str(pi_val) != modelled:
        LAST_DIFF = ('constant', pi_val, modelled); return False
    return True
