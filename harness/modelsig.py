"""sig(m): the model signature used by C01, C03, C14, C18 (DESIGN.md appendix B).  Read only
through metaclasses / attributes / indices / associations / select_many / getattr / navigate."""
import xtuml

NULLS = {'BOOLEAN': False, 'INTEGER': 0, 'REAL': 0.0, 'STRING': '', 'UNIQUE_ID': 0}


def norm(v, ty):
    ty = ty.upper()
    if v is None:
        return NULLS.get(ty)
    if ty == 'REAL':
        return float('%f' % v)
    return v


def schema_sig(m):
    classes = {}
    idents = {}
    for ukind, mc in m.metaclasses.items():
        classes[ukind] = [(n, t.upper()) for n, t in mc.attributes]
        idents[ukind] = {name: frozenset(attrs) for name, attrs in mc.indices.items()}
    assocs = []
    for ass in m.associations:
        sl, tl = ass.source_link, ass.target_link
        assocs.append((ass.rel_id, sl.to_metaclass.kind, tuple(ass.source_keys), sl.cardinality, tl.phrase,
                       tl.to_metaclass.kind, tuple(ass.target_keys), tl.cardinality, sl.phrase))
    return dict(classes=classes, assocs=sorted(assocs), identifiers=idents)


def instance_rows(m):
    rows = {}
    for ukind, mc in m.metaclasses.items():
        rows[ukind] = [tuple(norm(getattr(inst, n), t) for n, t in mc.attributes)
                       for inst in m.select_many(mc.kind)]
    return rows


def link_sig(m, by_index=True):
    """set of (rel, phrase, KIND_from, i_from, KIND_to, i_to) via navigation from every instance"""
    out = set()
    pools = {ukind: list(m.select_many(mc.kind)) for ukind, mc in m.metaclasses.items()}

    def ix(kind, inst):
        for n, x in enumerate(pools[kind.upper()]):
            if x is inst:
                return n
        return -1
    for ass in m.associations:
        sl, tl = ass.source_link, ass.target_link
        sk, tk = sl.to_metaclass.kind, tl.to_metaclass.kind
        for s in pools[sk.upper()]:
            for t in xtuml.navigate_many(s).nav(tk, ass.rel_id, tl.phrase)():
                out.add((ass.rel_id, tl.phrase, sk.upper(), ix(sk, s), tk.upper(), ix(tk, t)))
        for t in pools[tk.upper()]:
            for s in xtuml.navigate_many(t).nav(sk, ass.rel_id, sl.phrase)():
                out.add((ass.rel_id, sl.phrase, tk.upper(), ix(tk, t), sk.upper(), ix(sk, s)))
    return out


def sig(m):
    d = schema_sig(m)
    d['instances'] = instance_rows(m)
    d['links'] = link_sig(m)
    return d
