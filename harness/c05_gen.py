"""C05 / C06 on a second, SYNTHESISED BridgePoint model and a generated program family.

The schema of the interpreter harness (A, B, C, L; R1 simple, R2 reflexive with phrases, R3 linked) is
written as ooaofooa rows (same synthesiser as C14) together with a function F(p1, p2, pb, pn); the 33
oalprogs skeletons and the seeded oalrand family are prebuilt as the body of F, regenerated and
compared.  Because the programs are mini-ASTs, C05 gets an ABSOLUTE oracle here in addition to the
strict comparison of the two parses: the regenerated text, parsed and lifted (c07_abs.lift), must be
the mini-AST the text was printed from.  C06: the independent population oracle of c05_rt."""
import os
import xtuml
from bridgepoint import oal, prebuild, sourcegen, ooaofooa
from xtuml import navigate_many as many, navigate_one as one
from hlib import POST, PARAMS, cs, case, known, notrace, stub_str
import oalgen
import oalprogs
import oalrand
import c14_synth
import c07_abs
import c05_rt        # noqa  (installs the untraced oal.parse wrapper; provides tree / first_diff / check_population / violations)

stub_str()
LAST_DIFF = None
WHICH = PARAMS.get('which', 'c05')
FAMILY = PARAMS.get('family', 'core')
if FAMILY == 'core':
    BODIES = list(oalprogs.PROGRAMS)
else:
    BODIES = oalrand.generated(int(PARAMS.get('seed', 0)), int(PARAMS.get('count', 24)))
BODIES = BODIES[PARAMS.get('shard', 0)::PARAMS.get('nshards', 1)]
NB = len(BODIES)
TEXT = None
LOADER = None


def model_text():
    """ooaofooa rows of the A / B / C / L schema + function F"""
    diagram = dict(
        classes=[('A', [('Id', 'unique_id', [0]), ('n', 'integer', []), ('s', 'string', []), ('b', 'boolean', [])]),
                 ('B', [('Id', 'unique_id', [0]), ('v', 'integer', [])]),
                 ('C', [('Id', 'unique_id', [0]), ('k', 'integer', [])]),
                 ('L', [('w', 'integer', [])])],
        assocs=[(1, 'A', 'B', [('A_Id', 'Id')]), (2, 'C', 'C', [('Prev_Id', 'Id')])],
        linked=[(3, 'A', 'B', 'L', [('A_Id', 'Id')], [('B_Id', 'Id')], '', '')])
    rows = c14_synth.synthesise(diagram, (0, 1, 1, 1), None)
    r = c14_synth.Rows(); r.count = 9000
    core = c14_synth.CORE
    fid = r.new_id()
    r.insert('S_SYNC', Sync_ID=fid, Name="'F'", Descrip="''", Action_Semantics_internal="''", DT_ID=core['integer'], Suc_Pars=1)
    r.insert('PE_PE', Element_ID=fid, Visibility=1, type=1)
    prev = None
    for nm, ty in (('p1', 'integer'), ('p2', 'integer'), ('pb', 'boolean'), ('pn', 'integer')):
        pid = r.new_id()
        kw = dict(SParm_ID=pid, Sync_ID=fid, Name="'%s'" % nm, DT_ID=core[ty], By_Ref=0)
        if prev:
            kw['Previous_SParm_ID'] = prev
        r.insert('S_SPARM', **kw)
        prev = pid
    return rows + '\n'.join(r.rows) + '\n'


def build():
    global TEXT, LOADER
    if LOADER is None:
        TEXT = model_text()
        LOADER = ooaofooa.Loader()
        LOADER.input(TEXT)
    m = LOADER.build_metamodel(xtuml.IntegerGenerator())
    return m, m.select_one('S_SYNC', lambda s: s.Name == 'F')


def want_tree(body):
    return c07_abs.canon([c07_abs.nstmt(s) for s in body])


def check(pi: int) -> bool:
    """
    pre: 0 <= pi < NB
    post: POST(_)
    """
    global LAST_DIFF
    pi = cs(pi, 0, NB - 1)
    name, body = BODIES[pi]
    with notrace():
        text = oalgen.to_text(body)
        m, fn = build()
        fn.Action_Semantics_internal = text
        t0 = c05_rt.tree(oal.parse(text))
        before = c05_rt.violations(m)
        before_ids = set(id(i) for i in m.instances)
    prebuild.prebuild_action(fn)
    gen = sourcegen.gen_text_action(fn)
    case('gen', FAMILY, name)
    with notrace():
        after = c05_rt.violations(m)
        if after > before:
            LAST_DIFF = ('prebuild introduced %d multiplicity / uniqueness violations' % (after - before), name, text); return False
        d = c05_rt.check_population(m, before_ids, text, name)
        if d is not None:
            LAST_DIFF = (d, name, text); return False
        try:
            root = oal.parse(gen)
        except oal.ParseException as e:
            LAST_DIFF = ('generated text does not parse', name, str(e), gen); return False
        d = c05_rt.first_diff(t0, c05_rt.tree(root))
        if d is not None:
            LAST_DIFF = ('syntax tree differs after prebuild + text generation', name, d, gen); return False
        try:
            got = c07_abs.canon(c07_abs.lift_block(root.block))
        except ValueError as e:
            LAST_DIFF = ('generated text contains an unexpected construct', str(e), gen); return False
        if got != want_tree(body):
            LAST_DIFF = ('generated text is not the program that was written', name, repr(got)[:500], repr(want_tree(body))[:500]); return False
        m2, fn2 = build()
        fn2.Action_Semantics_internal = gen
    prebuild.prebuild_action(fn2)
    gen2 = sourcegen.gen_text_action(fn2)
    if gen2 != gen:
        LAST_DIFF = ('second translation changes the generated text', name, gen, gen2); return False
    return True
