"""C04: the interpreter computes what OAL defines.  One condition per program skeleton; the body is
parsed once outside the tracer; FunctionWalker.accept (what run_function does after parsing) runs
traced with SYMBOLIC parameters and attribute values; result and final population are compared
with the oalgen reference evaluator."""
import xtuml
from bridgepoint import oal, interpret
from bridgepoint.ooaofooa import Domain
from hlib import POST, PARAMS, cs, case, known, notrace, stub_str
import oalgen
import oalprogs

stub_str()
LAST_DIFF = None
PROG = PARAMS.get('prog', 'arith')
STYLE = PARAMS.get('style', 'lower')
if PROG.startswith('gen_'):
    import oalrand
    _seed, _k = int(PROG.split('_')[1]), int(PROG.split('_')[2])
    BODY = oalrand.generated(_seed, _k + 1)[_k][1]
else:
    BODY = dict(oalprogs.PROGRAMS)[PROG]
TEXT = oalgen.to_text(BODY, STYLE)
ROOT = None


def mk_domain():
    m = Domain(xtuml.IntegerGenerator())
    m.define_class('A', [('Id', 'unique_id'), ('n', 'integer'), ('s', 'string'), ('b', 'boolean')])
    m.define_class('B', [('Id', 'unique_id'), ('A_Id', 'unique_id'), ('v', 'integer')])
    m.define_class('C', [('Id', 'unique_id'), ('Prev_Id', 'unique_id'), ('k', 'integer')])
    m.define_class('L', [('A_Id', 'unique_id'), ('B_Id', 'unique_id'), ('w', 'integer')])
    m.define_association(1, 'B', ['A_Id'], True, True, '', 'A', ['Id'], False, True, '').formalize()
    m.define_association(2, 'C', ['Prev_Id'], False, True, 'succeeds', 'C', ['Id'], False, True, 'precedes').formalize()
    m.define_association(3, 'L', ['A_Id'], True, True, '', 'A', ['Id'], False, False, '').formalize()
    m.define_association(3, 'L', ['B_Id'], True, True, '', 'B', ['Id'], False, False, '').formalize()
    return m


def real_signature(m):
    rows = {}
    for k, attrs in oalgen.ATTRS.items():
        rows[k] = [tuple(getattr(i, a) for a in attrs) for i in m.select_many(k)]
    with notrace():
        pos = {}
        for k in oalgen.ATTRS:
            for n, i in enumerate(m.select_many(k)):
                pos[id(i)] = (k, n)
        links = set()
        for mc in m.metaclasses.values():
            for (ukind, rel, phrase), link in mc.links.items():
                for x, ys in link.items():
                    for y in ys:
                        if id(x) in pos and id(y) in pos:
                            links.add((int(rel[1:]), phrase, pos[id(x)], pos[id(y)]))
                        else:
                            links.add(('dangling', rel, phrase))
    return rows, links


def same_value(x, y):
    if x is None or y is None:
        return x is None and y is None
    if isinstance(x, bool) or isinstance(y, bool):
        return isinstance(x, bool) and isinstance(y, bool) and x == y
    return x == y


def check(ls: int, a0: int, a1: int, ab0: bool, ab1: bool, v0: int, v1: int, p1: int, p2: int, pb: bool,
          pn: int) -> bool:
    """
    pre: 0 <= ls < 9 and 0 <= pn <= 3
    post: POST(_)
    """
    return core(ls, a0, a1, ab0, ab1, v0, v1, p1, p2, pb, pn)


def keyword_fields(root):
    """AST fields that keep the raw spelling of a keyword: (node, attribute, lower-case keyword)"""
    out = []

    def walk(n):
        if n is None:
            return
        if isinstance(n, (oal.SelectFromNode, oal.SelectFromWhereNode, oal.SelectRelatedNode, oal.SelectRelatedWhereNode)):
            out.append((n, 'cardinality', n.cardinality.lower()))
        if isinstance(n, (oal.BinaryOperationNode, oal.UnaryOperationNode)) and n.operator.replace('_', '').isalpha():
            out.append((n, 'operator', n.operator.lower()))
        if isinstance(n, oal.BooleanNode):
            out.append((n, 'value', n.value.lower()))
        for c in getattr(n, 'children', None) or ():
            walk(c)
    walk(root)
    return out


with notrace():
    ROOT = oal.parse(TEXT)
    KWF = keyword_fields(ROOT)


def spelled(s, idx):
    """s is a spelling of the idx-th keyword field: same letters, any case"""
    if idx >= len(KWF):
        return len(s) == 0
    word = KWF[idx][2]
    if len(s) != len(word):
        return False
    for c, w in zip(s, word):
        if c != w and c != w.upper():
            return False
    return True


FI = PARAMS.get('field', 0)


def check_spelling(s: str) -> bool:
    """
    pre: spelled(s, FI)
    post: POST(_)
    """
    # keyword-carrying AST field number FI gets a SYMBOLIC spelling (letter case free per
    # character, all 2^len spellings); data and link state are fixed; result and final population
    # must equal the reference, i.e. the lower-case run
    spell = [None] * FI + [s]
    return core(4, 3, -2, False, True, 5, 1, 2, 1, True, 2, spell=spell)


class OutOfFuel(Exception):
    pass


def core(ls, a0, a1, ab0, ab1, v0, v1, p1, p2, pb, pn, spell=None):
    global LAST_DIFF, ROOT
    ls = cs(ls, 0, 8)
    for (node, attr, word), s in zip(KWF, spell or []):
        setattr(node, attr, word if s is None else s)
    with notrace():
        m = mk_domain()
        ra = [m.new('A'), m.new('A')]
        rb = [m.new('B'), m.new('B')]
        pop = oalgen.Pop()
        pa = [pop.new('A'), pop.new('A')]
        pb_ = [pop.new('B'), pop.new('B')]
        for bi in range(2):
            tgt = (ls // (3 ** bi)) % 3 - 1
            if tgt >= 0:
                xtuml.relate(rb[bi], ra[tgt], 1)
                pop.relate(pb_[bi], pa[tgt], 1)
    for inst, row, n, b in ((ra[0], pa[0], a0, ab0), (ra[1], pa[1], a1, ab1)):
        inst.n = n; inst.b = b
        row.vals['n'] = n; row.vals['b'] = b
    for inst, row, v in ((rb[0], pb_[0], v0), (rb[1], pb_[1], v1)):
        inst.v = v
        row.vals['v'] = v
    params = dict(p1=p1, p2=p2, pb=pb, pn=pn)
    w = interpret.FunctionWalker(m, dict(params))
    # fuel: every program of the corpus finishes within a few hundred node visits; a run that does not is reported as
    # a violation (the interpreter does not terminate where OAL does), not as a hang of the check
    fuel = [0]
    plain_accept = w.accept

    def counted(node, **kwargs):
        fuel[0] += 1
        if fuel[0] > 5000:
            raise OutOfFuel()
        return plain_accept(node, **kwargs)
    w.accept = counted
    try:
        w.accept(ROOT)
    except OutOfFuel:
        case(PROG, STYLE, ls)
        LAST_DIFF = ('the interpreter does not terminate (5000 node visits; the corpus needs < 500)', PROG); return False
    got = w.return_value
    globals()['LAST_FUEL'] = fuel[0]
    case(PROG, STYLE, ls)
    ref = oalgen.RefEval(pop, dict(params))
    exp = ref.run(BODY)
    if isinstance(exp, oalgen.Inst) or isinstance(got, xtuml.Class):
        LAST_DIFF = ('instance-valued return not supported by the harness',); return None
    if not same_value(got, exp):
        LAST_DIFF = ('return value', repr(got), repr(exp)); return False
    grows, glinks = real_signature(m)
    erows, elinks = pop.signature()
    for k in oalgen.ATTRS:
        if len(grows[k]) != len(erows[k]):
            LAST_DIFF = ('number of %s instances' % k, len(grows[k]), len(erows[k])); return False
        for gr, er in zip(grows[k], erows[k]):
            for gv, ev in zip(gr, er):
                if not same_value(gv, ev):
                    LAST_DIFF = ('attribute value in %s' % k, repr(gr), repr(er)); return False
    if glinks != elinks:
        LAST_DIFF = ('links', sorted(glinks ^ elinks, key=repr)); return False
    return True
