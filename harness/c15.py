from engine_api import Cond

PROPERTY = 'C15'
LEVEL = 'other'
ASSUMPTIONS = [
    'call graphs: a fixed list of 19 graphs (function->function, depth 3 with equally named locals, direct recursion with 0<=n<=4, mutual recursion, parameters bound by name in permuted order, calls in loop conditions / if conditions / where clauses, instance operation with self and attribute writes, class operation, bridge of a user external entity, derived attribute re-read after its inputs changed, bare return / no return, operation calling itself on self, return inside while / nested for each loops with statements behind the loop, one external entity with three bridges in non-alphabetical row order, invocation statements with and without the transform / bridge keyword)',
    'fixture: the BridgePoint model of tests/test_bridgepoint/test_interpret.py (copied to fixtures/), loaded outside the tracer; bodies overwritten before mk_component; an integer attribute val is appended to the built class',
    'arguments a, b and the attribute values are symbolic unbounded integers, n in 0..4; nested oal.parse calls run outside the tracer',
    'enumerator / constant values: model text with its S_ENUM rows in every order (text realised)',
]
GRAPHS = ['fn_fn', 'depth3_scopes', 'recursion', 'mutual', 'permuted_names', 'in_conditions', 'in_where', 'instance_op', 'class_op',
          'bridge', 'derived', 'return_forms', 'op_calls_op', 'side_effect_operands', 'derived_other', 'same_label', 'return_in_loops', 'multi_bridge', 'statement_keywords', 'derived_population', 'nested_arguments']


def conditions(tier, seed):
    t = 600 if tier == 'quick' else 3000
    out = []
    for g in GRAPHS:
        out.append(Cond('graph_' + g, 'c15_calls.py', dict(graph=g), timeout=t,
                        bound='call graph %s: all argument and attribute values, recursion depth n in 0..4' % g,
                        symbolic=['a', 'b', 'v0', 'v1 (unbounded ints)', 'n in 0..4']))
    out.append(Cond('enum_const_rows', 'c15_enum.py', {}, timeout=t,
                    bound='enumerators and constants of the fixture under every order of the S_ENUM rows and rotations of all rows',
                    case_split=['pi (row permutation)'], realised=['model text']))
    return out
