"""C07 (absolute oracle for statements and minimally parenthesised expressions): a program given as
a mini-AST (oalgen) is written as OAL text with ONLY the parentheses that precedence and
associativity require (table hard-coded here from the property statement, not read from the source),
parsed by the real parser and lifted back to a mini-AST, which must equal the original exactly:
statement kinds, order and nesting (if / elif* / else, loops), operands, operator grouping, names,
relationship numbers and phrases, parameter order.  Programs: the 33 oalprogs skeletons, a seeded
generated family (oalrand), and all expression trees of depth <= 2 over one operator per precedence
level enumerated by index.  Text is realised; the parser runs outside the tracer (exercised, not
decided: the bit-vector BMC decides the expression sub-language)."""
import itertools
from bridgepoint import oal
from hlib import POST, PARAMS, cs, case, notrace
import oalgen
import oalprogs
import oalrand

LAST_DIFF = None
PREC = {'or': 1, 'and': 2, '<': 3, '<=': 3, '==': 3, '!=': 3, '>': 3, '>=': 3, '+': 4, '-': 4, '|': 4, '*': 5, '/': 5, '&': 5, '^': 5, '%': 6}
UNARY = 7
_ORIG_EXPR_TEXT = oalgen.expr_text


def etext(e):
    """minimal parentheses: left operand parenthesised when it binds weaker (or equally, for the
    non-associative comparisons); right operand when it binds weaker or equally; a unary operand when
    it is a binary operation"""
    t = e[0]
    if t == 'int' and e[1] < 0:
        e = ('bin', '-', ('int', 0), ('int', -e[1])); t = 'bin'
    if t == 'bin':
        p = PREC[e[1]]
        l, r = norm(e[2]), norm(e[3])
        lt, rt = etext(l), etext(r)
        if l[0] == 'bin' and (PREC[l[1]] < p or (PREC[l[1]] == p and p == 3)):
            lt = '(' + lt + ')'
        if r[0] == 'bin' and PREC[r[1]] <= p:
            rt = '(' + rt + ')'
        return '%s %s %s' % (lt, e[1], rt)
    if t == 'un':
        o = norm(e[2])
        ot = etext(o)
        if o[0] == 'bin':
            ot = '(' + ot + ')'
        return '%s %s' % (e[1], ot)
    if t == 'attr':
        return '%s.%s' % (etext(e[1]), e[2])
    if t == 'call':
        _, kind, target, name, args = e
        a = ', '.join('%s: %s' % (n, etext(x)) for n, x in args)
        if kind == 'function':
            return '::%s(%s)' % (name, a)
        if kind in ('bridge', 'class'):
            return '%s::%s(%s)' % (target, name, a)
        return '%s.%s(%s)' % (etext(target), name, a)
    return _ORIG_EXPR_TEXT(e)


def norm(e):
    """the tree the text stands for: negative literals are written 0 - n"""
    if e[0] == 'int' and e[1] < 0:
        return ('bin', '-', ('int', 0), ('int', -e[1]))
    if e[0] == 'bin':
        return ('bin', e[1], norm(e[2]), norm(e[3]))
    if e[0] == 'un':
        return ('un', e[1], norm(e[2]))
    if e[0] == 'attr':
        return ('attr', norm(e[1]), e[2])
    if e[0] == 'call':
        return ('call', e[1], norm(e[2]) if isinstance(e[2], tuple) else e[2], e[3], [(n, norm(x)) for n, x in e[4]])
    return e


def stext(s, ind=0):
    """statement text: oalgen's printer with etext for expressions (monkey-free: local re-implementation of the expression hook)"""
    saved = oalgen.expr_text
    oalgen.expr_text = lambda e, st='lower': etext(e)
    try:
        return oalgen.stmt_text(s, ind)
    finally:
        oalgen.expr_text = saved


def nstmt(s):
    t = s[0]
    if t == 'assign':
        return ('assign', norm(s[1]), norm(s[2]))
    if t == 'if':
        return ('if', norm(s[1]), [nstmt(x) for x in s[2]], [(norm(c), [nstmt(x) for x in b]) for c, b in s[3]],
                None if s[4] is None else [nstmt(x) for x in s[4]])
    if t == 'while':
        return ('while', norm(s[1]), [nstmt(x) for x in s[2]])
    if t == 'foreach':
        return ('foreach', s[1], s[2], [nstmt(x) for x in s[3]])
    if t == 'return':
        return ('return', None if s[1] is None else norm(s[1]))
    if t == 'select':
        return ('select', s[1], s[2], s[3], None if s[4] is None else norm(s[4]))
    if t == 'select_rel':
        return ('select_rel', s[1], s[2], norm(s[3]), [tuple(x) for x in s[4]], None if s[5] is None else norm(s[5]))
    if t == 'callstmt':
        return ('callstmt', norm(s[1]))
    return tuple(s)


# ------------------------------------------------------------------------------------------------
# lifting the real syntax tree

def lift(n):
    k = type(n).__name__
    if k == 'IntegerNode':
        return ('int', int(n.value))
    if k == 'BooleanNode':
        return ('bool', n.value.lower() == 'true')
    if k == 'StringNode':
        v = n.value
        return ('str', v[1:-1] if v[:1] == '"' else v)
    if k == 'VariableAccessNode':
        return ('var', n.variable_name)
    if k == 'SelfAccessNode':
        return ('self',)
    if k == 'SelectedAccessNode':
        return ('selected',)
    if k == 'ParamAccessNode':
        return ('param', n.variable_name)
    if k == 'FieldAccessNode':
        return ('attr', lift(n.handle), n.name)
    if k == 'UnaryOperationNode':
        return ('un', n.operator.lower(), lift(n.operand))
    if k == 'BinaryOperationNode':
        return ('bin', n.operator.lower(), lift(n.left), lift(n.right))
    if k == 'FunctionInvocationNode':
        return ('call', 'function', None, n.action_name, [(p.name, lift(p.expression)) for p in n.parameter_list.children])
    if k == 'InstanceInvocationNode':
        return ('call', 'instance', lift(n.handle), n.action_name, [(p.name, lift(p.expression)) for p in n.parameter_list.children])
    if k in ('ImplicitInvocationNode', 'ClassInvocationNode', 'BridgeInvocationNode'):
        return ('call', 'nsp', n.namespace, n.action_name, [(p.name, lift(p.expression)) for p in n.parameter_list.children])
    raise ValueError('unexpected expression node %s' % k)


def lift_block(b):
    return [lift_stmt(c) for c in b.statement_list.children]


def lift_stmt(n):
    k = type(n).__name__
    if k == 'AssignmentNode':
        return ('assign', lift(n.variable_access), lift(n.expression))
    if k == 'IfNode':
        elifs = [(lift(e.expression), lift_block(e.block)) for e in (n.elif_list.children if n.elif_list is not None else [])]
        els = lift_block(n.else_clause.block) if n.else_clause is not None else None
        return ('if', lift(n.expression), lift_block(n.block), elifs, els)
    if k == 'WhileNode':
        return ('while', lift(n.expression), lift_block(n.block))
    if k == 'ForEachNode':
        return ('foreach', n.instance_variable_name, n.set_variable_name, lift_block(n.block))
    if k == 'BreakNode':
        return ('break',)
    if k == 'ContinueNode':
        return ('continue',)
    if k == 'ControlNode':
        return ('stop',)
    if k == 'ReturnNode':
        return ('return', None if n.expression is None else lift(n.expression))
    if k == 'CreateObjectNode':
        return ('create', n.variable_name, n.key_letter)
    if k == 'CreateObjectNoVariableNode':
        return ('create_nv', n.key_letter)
    if k == 'DeleteNode':
        return ('delete', n.variable_name)
    if k in ('RelateNode', 'UnrelateNode'):
        return ('relate' if k == 'RelateNode' else 'unrelate', n.from_variable_name, n.to_variable_name, int(n.rel_id[1:]),
                n.phrase.strip("'") if n.phrase else None)
    if k in ('RelateUsingNode', 'UnrelateUsingNode'):
        return ('relate_using' if k == 'RelateUsingNode' else 'unrelate_using', n.from_variable_name, n.to_variable_name,
                n.using_variable_name, int(n.rel_id[1:])) + ((n.phrase.strip("'"),) if n.phrase else ())
    if k in ('SelectFromNode', 'SelectFromWhereNode'):
        return ('select', n.cardinality.lower(), n.variable_name, n.key_letter, lift(n.where_clause) if k == 'SelectFromWhereNode' else None)
    if k in ('SelectRelatedNode', 'SelectRelatedWhereNode'):
        steps = [(s.key_letter, int(s.rel_id[1:]), s.phrase.strip("'") if s.phrase else None) for s in n.navigation_chain.children]
        return ('select_rel', n.cardinality.lower(), n.variable_name, lift(n.handle), steps, lift(n.where_clause) if k == 'SelectRelatedWhereNode' else None)
    if k == 'InvocationStatementNode':
        return ('callstmt', lift(n.invocation))
    raise ValueError('unexpected statement node %s' % k)


def same_call_kind(a, b):
    return a


def canon(x):
    """calls: the parser cannot tell a class operation from a bridge (both NS::name)"""
    if isinstance(x, tuple) and x and x[0] == 'call' and x[1] in ('bridge', 'class'):
        return ('call', 'nsp') + tuple(canon(y) for y in x[2:])
    if isinstance(x, (tuple, list)):
        return tuple(canon(y) for y in x)
    return x


# ------------------------------------------------------------------------------------------------
FAMILY = PARAMS.get('family', 'core')
if FAMILY == 'core':
    BODIES = [b for _, b in oalprogs.PROGRAMS]
elif FAMILY == 'gen':
    BODIES = [b for _, b in oalrand.generated(int(PARAMS.get('seed', 0)), int(PARAMS.get('count', 40)))]
else:
    BODIES = []
NB = len(BODIES)


def check_program(pi: int) -> bool:
    """
    pre: 0 <= pi < NB
    post: POST(_)
    """
    global LAST_DIFF
    pi = cs(pi, 0, NB - 1)
    with notrace():
        body = BODIES[pi]
        text = ''.join(stext(s) for s in body)
        want = canon([nstmt(s) for s in body])
        try:
            got = canon(lift_block(oal.parse(text).block))
        except oal.ParseException as e:
            got = ('does not parse', str(e))
    case('abs', FAMILY, pi)
    if got != want:
        LAST_DIFF = ('parsed tree is not the tree that was written', text, repr(got)[:600], repr(want)[:600]); return False
    return True


OPS = ['or', 'and', '==', '<', '+', '-', '*', '/', '%']
UNS = ['not', '-', 'empty', 'cardinality']
LEAVES = [('var', 'a'), ('int', 1)]


def trees(d):
    if d == 0:
        return list(LEAVES)
    sub = trees(d - 1)
    out = list(LEAVES)
    for u in UNS:
        for s in sub:
            out.append(('un', u, s))
    for o in OPS:
        for l in sub:
            for r in sub:
                out.append(('bin', o, l, r))
    return out


if FAMILY == 'trees':
    _all = trees(int(PARAMS.get('depth', 2)))
    SH, NSH = int(PARAMS.get('shard', 0)), int(PARAMS.get('nshards', 1))
    TREES = _all[SH::NSH]
else:
    TREES = []
NT = len(TREES)


def check_tree(ti: int) -> bool:
    """
    pre: 0 <= ti < NT
    post: POST(_)
    """
    # every expression tree of the given depth over one operator per precedence level (+ - and * / for
    # left-association inside a level), written with minimal parentheses, parses back to itself
    global LAST_DIFF
    ti = cs(ti, 0, NT - 1)
    with notrace():
        e = TREES[ti]
        text = 'x = %s;' % etext(e)
        try:
            got = lift(oal.parse(text).block.statement_list.children[0].expression)
        except oal.ParseException as ex:
            got = ('does not parse', str(ex))
    case('tree', ti)
    if got != norm(e):
        LAST_DIFF = ('expression does not parse back to the tree that was written', text, repr(got), repr(norm(e))); return False
    return True


# ------------------------------------------------------------------------------------------------
# parameter lists: the grammar allows a comma behind the last parameter; every way of writing a list of n parameters
# parses to a list of exactly those n parameters in order, and a list written WITHOUT parameters is empty whatever
# was parsed before in the same process (parse history)
CALLS = [('::f(%s)', 'FunctionInvocationNode'), ('bridge ARCH::g(%s)', 'BridgeInvocationNode'), ('K::cop(%s)', 'ImplicitInvocationNode'),
         ('a.iop(%s)', 'InstanceInvocationNode'), ('x = ::f(%s)', 'FunctionInvocationNode')]


def _param_lists(n):
    out = []

    def walk(x):
        if isinstance(x, oal.ParameterListNode):
            out.append([(p.name, p.expression.value) for p in x.children])
        for c in getattr(x, 'children', None) or []:
            if c is not None and not isinstance(c, str):
                walk(c)
    walk(n)
    return out


def check_params(ci: int, n1: int, t1: int, n2: int, t2: int, cj: int) -> bool:
    """
    pre: 0 <= ci < 5 and 0 <= cj < 5 and 0 <= n1 <= 3 and 0 <= n2 <= 3 and 0 <= t1 <= 1 and 0 <= t2 <= 1
    post: POST(_)
    """
    global LAST_DIFF
    ci = cs(ci, 0, 4); cj = cs(cj, 0, 4); n1 = cs(n1, 0, 3); n2 = cs(n2, 0, 3); t1 = cs(t1, 0, 1); t2 = cs(t2, 0, 1)
    with notrace():
        def lst(n, trailing):
            s = ', '.join('p%d: %d' % (k, k + 10) for k in range(n))
            return s + (',' if trailing and n else '')
        first = '%s;\n' % (CALLS[ci][0] % lst(n1, t1))
        second = '%s;\n%s;\n' % (CALLS[cj][0] % lst(n2, t2), CALLS[ci][0] % '')
        exp1 = [[('p%d' % k, str(k + 10)) for k in range(n1)]]
        exp2 = [[('p%d' % k, str(k + 10)) for k in range(n2)], []]
        try:
            got1 = _param_lists(oal.parse(first))
            got2 = _param_lists(oal.parse(second))
        except oal.ParseException as e:
            LAST_DIFF = ('parameter list rejected', first, second, str(e)); case('params', ci, n1, t1, n2, t2, cj); return False
    case('params', ci, n1, t1, n2, t2, cj)
    if got1 != exp1:
        LAST_DIFF = ('parameter list', first, got1, exp1); return False
    if got2 != exp2:
        LAST_DIFF = ('parameter lists of the second text (parsed after %r)' % first, second, got2, exp2); return False
    return True
