from engine_api import Cond
import oalprogs

PROPERTY = 'C04'
LEVEL = 'other'
ASSUMPTIONS = [
    'program family: the fixed core of %d error-free skeletons in harness/oalprogs.py covering every construct of the statement (nested loops with break/continue, if/elif/else, while with symbolic bounds, create/delete in loops, relate/unrelate incl. using, select any/many/one from instances and along 1-2-step chains with and without where, cardinality/empty/not_empty, control stop, all return forms)' % len(oalprogs.PROGRAMS),
    'generated family: 8 (thorough 200) seeded random programs per run from harness/oalrand.py (assignments, if/elif/else, bounded while with break/continue, for each with where, create/relate, guarded select any), nesting depth <= 3',
    'initial population: 2 A and 2 B instances with symbolic unbounded integer / boolean attribute values, every R1 link state (9); parameters p1, p2 unbounded ints, pb boolean, pn in 0..3',
    'integer "/" and "%" on negative operands are left out (the statement does not settle their semantics); the instance-set operators | & ^ are not in the statement; reals and strings only as literals',
    'the body text is parsed by the real parser outside the tracer; execution (FunctionWalker.accept) is traced',
    'reference evaluator: harness/oalgen.py RefEval over plain rows and ordered adjacency lists',
]


def conditions(tier, seed):
    t = 600 if tier == 'quick' else 3000
    out = []
    for name, _ in oalprogs.PROGRAMS:
        out.append(Cond('prog_' + name, 'c04_interp.py', dict(prog=name), timeout=t,
                        bound='skeleton %s: all parameter and attribute values, 9 initial link states' % name,
                        symbolic=['a0', 'a1', 'ab0', 'ab1', 'v0', 'v1', 'p1', 'p2', 'pb', 'pn (0..3)'],
                        case_split=['ls (initial R1 links)']))
    # generated family: seeded, type-correct, error-free programs (harness/oalrand.py), depth <= 3
    ngen = 8 if tier == 'quick' else 120
    for k in range(ngen):
        out.append(Cond('prog_gen_%d_%d' % (seed, k), 'c04_interp.py', dict(prog='gen_%d_%d' % (seed, k)), timeout=(240 if tier == 'quick' else 1200),
                        bound='generated program %d of seed %d: all parameter and attribute values, 9 initial link states' % (k, seed),
                        symbolic=['a0', 'a1', 'ab0', 'ab1', 'v0', 'v1', 'p1', 'p2', 'pb', 'pn'], case_split=['ls'], twin=(k < 2)))
    out.append(Cond('undo_relate_using_reflexive', 'c04_undo.py', {}, func='check', timeout=t,
                    bound='real fixture with a reflexive association class (R1 one/other via Assoc): 5 x 5 (first link, second link) scripts; navigations after relate S, relate T, unrelate T equal those after relate S',
                    case_split=['first', 'second'], realised=['program text']))
    return out
