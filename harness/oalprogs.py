"""The fixed core of OAL program skeletons (mini-AST of oalgen) used by C04 / C08.
Every program is error-free by construction for every initial population and every parameter value in
the declared ranges: variables are assigned in an enclosing block before use, attribute reads of
selected instances are guarded by not_empty, relate/unrelate never collide with multiplicities,
deleted instances are unlinked first.  '/' is not used, '%' only on non-negative operands.
Parameters: p1, p2 unbounded integers, pb boolean, pn integer in 0..3."""

I = lambda v: ('int', v)
V = lambda n: ('var', n)
P = lambda n: ('param', n)
A = lambda e, n: ('attr', e, n)
SEL = ('selected',)
T, F = ('bool', True), ('bool', False)


def B(op, l, r):
    return ('bin', op, l, r)


def U(op, e):
    return ('un', op, e)


def let(x, e):
    return ('assign', V(x), e)


def seta(h, n, e):
    return ('assign', A(V(h), n), e)


def IF(c, then, elifs=(), els=None):
    return ('if', c, list(then), [(cc, list(bb)) for cc, bb in elifs], None if els is None else list(els))


def WH(c, body):
    return ('while', c, list(body))


def FE(v, s, body):
    return ('foreach', v, s, list(body))


def RET(e=None):
    return ('return', e)


inc = lambda x, e=None: let(x, B('+', V(x), e if e is not None else I(1)))

PROGRAMS = [
    ('arith', [RET(B('-', B('*', B('+', P('p1'), P('p2')), I(2)), B('%', P('pn'), I(2))))]),
    ('unary', [let('x', U('-', P('p1'))), RET(B('+', V('x'), U('-', U('-', P('p2')))))]),
    ('cmp_chain', [IF(B('<', P('p1'), P('p2')), [RET(I(1))], [(B('==', P('p1'), P('p2')), [RET(I(2))])], [RET(I(3))])]),
    ('bool_ops', [RET(B('or', B('and', B('>', P('p1'), I(0)), U('not', P('pb'))), B('<=', P('p2'), P('p1'))))]),
    ('bool_ne_ge', [let('r', B('and', B('!=', P('p1'), P('p2')), B('>=', P('p1'), I(3)))),
                    IF(V('r'), [RET(T)]), RET(B('or', P('pb'), F))]),
    ('while_sum', [let('i', I(0)), let('s', I(0)),
                   WH(B('<', V('i'), P('pn')), [inc('s', B('*', V('i'), P('p1'))), inc('i')]), RET(V('s'))]),
    ('while_brk_cont', [let('i', I(0)), let('s', I(0)),
                        WH(B('<', V('i'), I(4)), [inc('i'),
                                                  IF(B('==', V('i'), P('pn')), [('continue',)]),
                                                  IF(B('>', V('i'), B('+', P('pn'), I(1))), [('break',)]),
                                                  inc('s', V('i'))]),
                        RET(B('+', B('*', V('s'), I(10)), V('i')))]),
    ('nested_loops', [('select', 'many', 'as', 'A', None), ('select', 'many', 'bs', 'B', None), let('cnt', I(0)),
                      FE('a', 'as', [IF(B('<', A(V('a'), 'n'), P('p1')), [('continue',)]),
                                     FE('b', 'bs', [IF(B('>', A(V('b'), 'v'), A(V('a'), 'n')), [inc('cnt')],
                                                       [(B('==', A(V('b'), 'v'), P('p2')), [('break',)])]),
                                                    inc('cnt', I(100))])]),
                      RET(V('cnt'))]),
    ('foreach_write', [('select', 'many', 'as', 'A', None),
                       FE('a', 'as', [seta('a', 'n', B('+', A(V('a'), 'n'), P('p1')))]), RET(U('cardinality', V('as')))]),
    ('select_any_where', [('select', 'any', 'a', 'A', B('==', A(SEL, 'n'), P('p1'))),
                          IF(U('not_empty', V('a')), [RET(A(V('a'), 'n'))], (), [RET(U('-', I(1)))])]),
    ('select_many_where', [('select', 'many', 'bs', 'B', B('>', A(SEL, 'v'), P('p1'))), RET(U('cardinality', V('bs')))]),
    ('where_and', [('select', 'many', 'as', 'A', B('and', B('>', A(SEL, 'n'), P('p1')), B('==', A(SEL, 'b'), P('pb')))),
                   let('s', I(0)), FE('a', 'as', [inc('s', A(V('a'), 'n'))]), RET(V('s'))]),
    ('create_loop', [let('i', I(0)),
                     WH(B('<', V('i'), P('pn')), [('create', 'b', 'B'), seta('b', 'v', B('+', V('i'), P('p1'))), inc('i')]),
                     ('select', 'many', 'bs', 'B', B('>=', A(SEL, 'v'), P('p1'))), RET(U('cardinality', V('bs')))]),
    ('create_relate', [('create', 'a', 'A'), ('create', 'b', 'B'), ('relate', 'b', 'a', 1, None),
                       ('select_rel', 'one', 'x', V('b'), [('A', 1, None)], None), seta('x', 'n', P('p1')),
                       ('select_rel', 'many', 'ys', V('a'), [('B', 1, None)], None),
                       RET(B('+', A(V('a'), 'n'), U('cardinality', V('ys'))))]),
    ('relate_unrelate', [('create', 'a', 'A'), ('create', 'b', 'B'), ('relate', 'a', 'b', 1, None), ('unrelate', 'b', 'a', 1, None),
                         ('select_rel', 'many', 'ys', V('a'), [('B', 1, None)], None),
                         ('select_rel', 'one', 'x', V('b'), [('A', 1, None)], None),
                         RET(B('and', U('empty', V('ys')), U('empty', V('x'))))]),
    ('nav_where_sum', [('select', 'any', 'a', 'A', None), let('s', I(0)),
                       IF(U('not_empty', V('a')),
                          [('select_rel', 'many', 'bs', V('a'), [('B', 1, None)], B('>=', A(SEL, 'v'), P('p2'))),
                           FE('b', 'bs', [inc('s', A(V('b'), 'v'))])]),
                       RET(V('s'))]),
    ('nav_two_steps', [('select', 'any', 'b', 'B', B('>', A(SEL, 'v'), P('p1'))), let('r', I(0)),
                       IF(U('not_empty', V('b')),
                          [('select_rel', 'one', 'a', V('b'), [('A', 1, None)], None),
                           ('select_rel', 'many', 'bs2', V('b'), [('A', 1, None), ('B', 1, None)], None),
                           let('r', U('cardinality', V('bs2'))),
                           IF(U('not_empty', V('a')), [seta('a', 'n', P('p2'))])]),
                       RET(V('r'))]),
    ('nav_from_set', [('select', 'many', 'bs', 'B', B('<', A(SEL, 'v'), P('p1'))),
                      ('select_rel', 'many', 'as', V('bs'), [('A', 1, None)], None),
                      ('select_rel', 'any', 'x', V('bs'), [('A', 1, None)], B('>', A(SEL, 'n'), P('p2'))),
                      RET(B('+', U('cardinality', V('as')), U('cardinality', V('x'))))]),
    ('reflexive', [('create', 'c1', 'C'), ('create', 'c2', 'C'), ('create', 'c3', 'C'),
                   ('relate', 'c1', 'c2', 2, 'precedes'), ('relate', 'c3', 'c2', 2, 'succeeds'),
                   ('select_rel', 'one', 'x', V('c1'), [('C', 2, 'precedes'), ('C', 2, 'precedes')], None),
                   seta('x', 'k', P('p1')),
                   ('select_rel', 'one', 'y', V('c3'), [('C', 2, 'succeeds')], None), seta('y', 'k', P('p2')),
                   ('select_rel', 'one', 'z', V('c1'), [('C', 2, 'succeeds')], None),
                   ('unrelate', 'c1', 'c2', 2, 'precedes'),
                   ('select_rel', 'one', 'w', V('c2'), [('C', 2, 'succeeds')], None),
                   RET(B('and', B('==', A(V('c3'), 'k'), P('p1')),
                         B('and', U('empty', V('z')), B('and', U('empty', V('w')), B('==', A(V('c2'), 'k'), P('p2'))))))]),
    ('assoc_using', [('create', 'a', 'A'), ('create', 'b', 'B'), ('create', 'b2', 'B'), ('create', 'l', 'L'), ('create', 'l2', 'L'),
                     ('relate_using', 'a', 'b', 'l', 3), ('relate_using', 'a', 'b2', 'l2', 3),
                     seta('l', 'w', P('p1')), seta('l2', 'w', P('p2')),
                     ('select_rel', 'many', 'bs', V('a'), [('B', 3, None)], None),
                     ('select_rel', 'many', 'ls', V('a'), [('L', 3, None)], B('>', A(SEL, 'w'), P('p2'))),
                     ('select_rel', 'one', 'a2', V('b2'), [('L', 3, None), ('A', 3, None)], None),
                     ('unrelate_using', 'a', 'b', 'l', 3),
                     ('select_rel', 'many', 'bs2', V('a'), [('B', 3, None)], None),
                     RET(B('+', B('*', U('cardinality', V('bs')), I(100)),
                           B('+', B('*', U('cardinality', V('ls')), I(10)),
                             B('+', U('cardinality', V('bs2')), U('cardinality', V('a2'))))))]),
    ('delete_loop', [('select', 'many', 'bs', 'B', None),
                     FE('b', 'bs', [IF(B('<', A(V('b'), 'v'), P('p1')),
                                       [('select_rel', 'one', 'a', V('b'), [('A', 1, None)], None),
                                        IF(U('not_empty', V('a')), [('unrelate', 'b', 'a', 1, None)]),
                                        ('delete', 'b')])]),
                     ('select', 'many', 'rest', 'B', None), RET(U('cardinality', V('rest')))]),
    ('elif_ladder', [let('r', I(0)),
                     IF(B('>', P('p1'), I(10)), [let('r', I(1))],
                        [(B('>', P('p1'), I(5)), [IF(P('pb'), [let('r', I(2))], (), [let('r', I(3))])]),
                         (B('>', P('p1'), P('p2')), [let('r', I(4))]),
                         (B('==', P('pn'), I(2)), [let('r', I(5))])],
                        [let('r', I(6))]),
                     RET(V('r'))]),
    ('control_stop', [('select', 'any', 'a', 'A', None),
                      IF(U('not_empty', V('a')), [seta('a', 'n', I(5)), IF(P('pb'), [('stop',)]), seta('a', 'n', P('p1'))]),
                      RET(I(7))]),
    ('return_in_loop', [let('i', I(0)),
                        WH(T, [inc('i'), IF(B('>', V('i'), P('pn')), [RET(B('+', V('i'), P('p1')))])]),
                        RET(I(0))]),
    ('bare_return', [('select', 'any', 'a', 'A', None),
                     IF(U('not_empty', V('a')), [seta('a', 'n', P('p1')), IF(P('pb'), [RET()]), seta('a', 'n', P('p2'))])]),
    ('scoping', [let('x', I(1)), IF(P('pb'), [let('x', B('+', V('x'), P('p1'))), let('y', I(3)), inc('x', V('y'))]),
                 WH(B('<', V('x'), I(0)), [let('t', V('x')), let('x', B('-', I(0), V('t')))]), RET(V('x'))]),
    ('strings', [let('s', B('+', ('str', 'ab'), ('str', 'cd'))), ('create', 'a', 'A'), seta('a', 's', V('s')),
                 IF(B('==', A(V('a'), 's'), ('str', 'abcd')), [RET(B('+', A(V('a'), 's'), ('str', '!')))]), RET(('str', 'no'))]),
    ('empty_card', [('select', 'any', 'a', 'A', F), ('select', 'many', 'as', 'A', F), ('select', 'any', 'b', 'A', None),
                    RET(B('+', B('+', U('cardinality', V('a')), U('cardinality', V('as'))),
                          B('*', I(10), U('cardinality', V('b')))))]),
    ('create_nv', [('create_nv', 'C'), ('create_nv', 'C'), ('select', 'many', 'cs', 'C', None), RET(U('cardinality', V('cs')))]),
    ('bool_attr', [('select', 'many', 'as', 'A', None), let('c', I(0)),
                   FE('a', 'as', [seta('a', 'b', B('>', A(V('a'), 'n'), P('p1'))), IF(A(V('a'), 'b'), [inc('c')])]), RET(V('c'))]),
    ('dead_code', [RET(P('p1')), let('x', I(1)), RET(V('x'))]),
    ('while_foreach_break', [let('i', I(0)), let('hits', I(0)), ('select', 'many', 'bs', 'B', None),
                             WH(B('<', V('i'), P('pn')),
                                [inc('i'), FE('b', 'bs', [IF(B('==', A(V('b'), 'v'), V('i')), [inc('hits'), ('break',)]),
                                                          seta('b', 'v', B('+', A(V('b'), 'v'), I(1)))])]),
                             RET(V('hits'))]),
    ('select_one_any_first', [('select', 'any', 'a', 'A', B('>', A(SEL, 'n'), P('p1'))),
                              ('select', 'any', 'b', 'B', None),
                              IF(B('and', U('not_empty', V('a')), U('not_empty', V('b'))),
                                 [RET(B('+', A(V('a'), 'n'), A(V('b'), 'v')))]), RET(I(0))]),
]
PROGRAMS += [
    # the most recently related partner is unrelated, then another one is related: the set behind the link has
    # seen a removal of its last element and must still deliver everything related afterwards
    ('relate_unrelate_relate', [('create', 'a', 'A'), ('create', 'b1', 'B'), ('create', 'b2', 'B'), ('create', 'b3', 'B'), ('create', 'b4', 'B'),
                                seta('b1', 'v', I(1)), seta('b2', 'v', I(20)), seta('b3', 'v', P('p1')), seta('b4', 'v', P('p2')),
                                ('relate', 'b1', 'a', 1, None), ('relate', 'b2', 'a', 1, None), ('unrelate', 'b2', 'a', 1, None),
                                ('relate', 'b3', 'a', 1, None), ('relate', 'b4', 'a', 1, None), ('unrelate', 'b3', 'a', 1, None),
                                ('relate', 'b2', 'a', 1, None),
                                ('select_rel', 'many', 'bs', V('a'), [('B', 1, None)], None), let('s', I(0)),
                                FE('b', 'bs', [inc('s', A(V('b'), 'v'))]),
                                RET(B('+', B('*', U('cardinality', V('bs')), I(1000)), V('s')))]),
    # select any / one through a chain whose first intermediate instance is a dead end
    ('chain_dead_end', [('create', 'a', 'A'), ('create', 'b1', 'B'), ('create', 'b2', 'B'), ('create', 'b3', 'B'),
                        ('relate', 'b1', 'a', 1, None), ('relate', 'b2', 'a', 1, None), ('relate', 'b3', 'a', 1, None),
                        ('create', 'a2', 'A'), ('create', 'l2', 'L'), ('create', 'l3', 'L'),
                        ('relate_using', 'a2', 'b2', 'l2', 3), ('relate_using', 'a2', 'b3', 'l3', 3),
                        seta('l2', 'w', P('p1')), seta('l3', 'w', P('p2')),
                        ('select_rel', 'any', 'x', V('a'), [('B', 1, None), ('L', 3, None)], None),
                        ('select_rel', 'any', 'y', V('a'), [('B', 1, None), ('L', 3, None)], B('==', A(SEL, 'w'), P('p2'))),
                        ('select_rel', 'many', 'zs', V('a'), [('B', 1, None), ('L', 3, None), ('A', 3, None)], None),
                        let('r', U('cardinality', V('zs'))),
                        IF(U('not_empty', V('x')), [inc('r', I(10))]),
                        IF(U('not_empty', V('y')), [inc('r', I(100))]),
                        RET(V('r'))]),
    # `continue` fires in what should be the last round of a while loop: the condition must be evaluated again
    ('while_continue_last', [let('i', I(0)), let('n', I(0)),
                             WH(B('<', V('i'), I(5)), [inc('i'), IF(B('==', B('%', V('i'), I(2)), I(1)), [('continue',)]), inc('n', P('p1'))]),
                             RET(B('+', B('*', V('i'), I(100)), V('n')))]),
    # an instance that is still related is deleted: its links go with it, on BOTH sides (here the deleted instance is of the
    # class that holds no referential attribute); the partner can be related anew afterwards
    ('delete_related', [('create', 'a', 'A'), ('create', 'b1', 'B'), ('create', 'b2', 'B'), ('create', 'a3', 'A'),
                        ('relate', 'b1', 'a', 1, None), ('relate', 'b2', 'a', 1, None), seta('a3', 'n', P('p1')),
                        ('delete', 'a'),
                        ('select_rel', 'one', 'x', V('b1'), [('A', 1, None)], None),
                        ('select_rel', 'many', 'bs', V('a3'), [('B', 1, None)], None),
                        let('r', B('+', B('*', U('cardinality', V('x')), I(100)), U('cardinality', V('bs')))),
                        ('relate', 'b1', 'a3', 1, None),
                        ('select_rel', 'one', 'y', V('b1'), [('A', 1, None)], None),
                        IF(U('not_empty', V('y')), [inc('r', A(V('y'), 'n'))]),
                        ('create', 'l', 'L'), ('relate_using', 'a3', 'b2', 'l', 3), ('delete', 'l'),
                        ('select_rel', 'many', 'ls', V('a3'), [('L', 3, None)], None),
                        RET(B('+', V('r'), B('*', U('cardinality', V('ls')), I(1000))))]),
    # a reflexive association relating an instance to ITSELF (both operands of relate denote the same instance)
    ('relate_self', [('create', 'c1', 'C'), ('create', 'c2', 'C'), let('c3', V('c1')),
                     ('relate', 'c1', 'c3', 2, 'precedes'),
                     ('select_rel', 'one', 'x', V('c1'), [('C', 2, 'precedes')], None),
                     ('select_rel', 'one', 'y', V('c1'), [('C', 2, 'succeeds')], None),
                     ('select_rel', 'one', 'z', V('c2'), [('C', 2, 'succeeds')], None),
                     let('r', B('+', B('*', U('cardinality', V('x')), I(100)), B('+', B('*', U('cardinality', V('y')), I(10)), U('cardinality', V('z'))))),
                     ('unrelate', 'c1', 'c3', 2, 'precedes'),
                     ('select_rel', 'one', 'w', V('c1'), [('C', 2, 'precedes')], None),
                     RET(B('+', V('r'), B('*', U('cardinality', V('w')), I(1000))))]),
    # variables named like the scanner's token kinds (not keywords of the language)
    ('token_names', [let('number', I(2)), let('string', B('+', V('number'), P('p1'))), let('fraction', B('*', V('string'), I(3))),
                     let('mod', B('-', V('fraction'), V('number'))), let('minus', B('+', V('mod'), I(1))), let('comma', B('*', V('minus'), V('number'))),
                     let('dot', I(1)), let('times', B('+', V('dot'), V('comma'))), let('plus', V('times')), let('div', V('plus')),
                     let('id', B('+', V('div'), P('p2'))), let('lparen', V('id')), let('namespace', V('lparen')), let('arrow', V('namespace')),
                     RET(B('+', V('arrow'), V('number')))]),
]
NAMES = [n for n, _ in PROGRAMS]
