"""C08 (parse level): bodies that differ only in the letter case of keywords parse to the same tree.
Programs = the oalprogs core + carrier statements for the remaining keywords; styles lower / UPPER /
Capitalised / aLtErNaTiNg are case-split selectors; text is realised (PLY untraced).  Plus z3
inclusion lemmas for the END_IF / END_FOR / END_WHILE token regexes taken from the source."""
from bridgepoint import oal
from hlib import POST, PARAMS, cs, case, notrace
import oalgen
import oalprogs

LAST_DIFF = None
STYLES = ['upper', 'cap', 'mixed']
EXTRA = [
    # keywords outside the interpreted statement set (events, bridges, transform, send ...)
    'generate E1:evt(x: 1) to A class;', 'generate E1 to A creator;', 'generate E1 to A assigner;',
    'create event instance e of E1(x: true) to A class; generate e;',
    "select any a from instances of A; generate E2:'m'(v: not false) to a;",
    'bridge x = LOG::LogInfo(message: "m"); bridge LOG::LogInfo(message: "n");',
    'select any a from instances of A; transform y = a.op(p: 1); transform A::cop();',
    'send Port::msg(a: 1); send z = Port::msg(a: empty self);',
    'x = rcvd_evt.v; y = param.w; assign self.n = cardinality selected;',
    'for each a in as loop end for; while (true) loop break; end while; if (false) then elif (true) then else end if;',
    # the short forms without `instances of`, with and without a where clause, every cardinality word
    'select many xs from A where (selected.n > 1); select any y from B where (selected.v == 2); select many zs from A; select any w from B;',
    'select one o related by self->A[R1]; select any p related by self->A[R1] where (selected.n == 1); select many qs related by self->B[R1]->A[R1];',
    # the remaining statement productions (found by measuring which p_* functions the corpus reaches)
    'transform x = A::cop(p: 1); transform a.op(p: 1); send Port::msg(a: 1) to x;',
    "create event instance e of E1 to A assigner; create event instance e2 of E1:'m'(x: 1) to self; generate E2(x: 1, y: 2, z: 3) to self; generate E3() to self;",
    "relate a to b across R3.'p' using l; unrelate a from b across R3.'p' using l; x = 1;; y = 2;",
]
NPROG = len(oalprogs.PROGRAMS) + len(EXTRA)
KEYWORDS = set(k.lower() for k in oal.OALParser.keywords) | {'end'}


def restyle(text, style):
    """change the case of keywords only (identifiers, strings and phrases untouched)"""
    import re
    out = []
    for tok in re.split(r'("[^"\n]*"|\'[^\']*\'|[A-Za-z_][A-Za-z_0-9]*)', text):
        if tok.lower() in KEYWORDS and not tok.startswith(('"', "'")):
            out.append(oalgen.kw(tok.lower(), style))
        else:
            out.append(tok)
    return ''.join(out)


def tree(n):
    if n is None:
        return None
    if not isinstance(n, oal.Node):
        return repr(n)
    d = [type(n).__name__]
    seen = {}
    for k, v in sorted(vars(n).items()):
        if k in ('position', 'character_stream', 'children'):
            continue
        if isinstance(v, oal.Node):
            seen[id(v)] = k
            d.append((k, tree(v)))
        elif isinstance(v, str) and k in ('cardinality', 'operator') or (k == 'value' and isinstance(n, oal.BooleanNode)):
            d.append((k, v.lower()))
        else:
            d.append((k, v))
    if hasattr(type(n), 'many'):
        d.append(('many (derived flag)', n.many))      # what the interpreter and the prebuilder branch on
    ch = getattr(n, 'children', None)
    if ch:
        # a child that is also a named field is not walked twice (exponential in the nesting depth): its place is recorded
        d.append(('children', [('field', seen[id(c)]) if id(c) in seen else tree(c) for c in ch]))
    return d


def check(pi: int, si: int) -> bool:
    """
    pre: 0 <= pi < NPROG and 0 <= si < 3
    post: POST(_)
    """
    global LAST_DIFF
    pi = cs(pi, 0, NPROG - 1); si = cs(si, 0, 2)
    with notrace():
        if pi < len(oalprogs.PROGRAMS):
            base = oalgen.to_text(oalprogs.PROGRAMS[pi][1], 'lower')
        else:
            base = EXTRA[pi - len(oalprogs.PROGRAMS)]
        styled = restyle(base, STYLES[si])
        t0 = tree(oal.parse(base))
        t1 = tree(oal.parse(styled))
    case('parse', pi, STYLES[si])
    if t0 != t1:
        LAST_DIFF = ('tree differs', base, styled); return False
    if styled == base:
        LAST_DIFF = ('harness: style did not change the text',); return False
    return True
