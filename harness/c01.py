from engine_api import Cond

PROPERTY = 'C01'
LEVEL = 'other'
ASSUMPTIONS = [
    'values are case-split from pools and realised (they pass through the SQL lexer): strings = all strings of length <= 2 over {a, quote, -, LF, CR, NUL, e-acute, double quote, space} + 9 longer specials; integers incl. > 64 bit and negative; reals; ids incl. 2^128-1; every subset of unset attributes',
    'one value dimension is varied per condition (sum, not product, of pools)',
    'outside the claim: phrases containing a single quote, inf/nan, ids >= 2^128, identifiers of the form R<digits>... (lexed as relationship number)',
    'lexical lemmas (E2) are decided by z3 over ALL strings up to the stated length and all integers, from the regexes / replace literals found in the current source',
]
ROUTES = ['db', 'dispatch', 'three', 'pieces', 'persist_db', 'persist_three']


def conditions(tier, seed):
    t = 300 if tier == 'quick' else 3000
    out = []
    for route in ROUTES:
        for dim in ['s', 'i', 'r', 'b', 'u', 'unset']:
            ns = 4 if dim == 's' else 1
            for sh in range(ns):
                out.append(Cond('types_%s_%s_s%d' % (dim, route, sh), 'c01_rt.py',
                                dict(family='types', dim=dim, route=route, shard=sh, nshards=ns), timeout=t,
                                bound='class with all five core types, two identifiers; attribute %s over its whole pool; route %s' % (dim, route),
                                case_split=['vi (pool index)'], realised=['serialised text / files'],
                                twin=(route == 'db' and sh == 0)))
        for shape in ['one_many', 'one_one', 'refl', 'assoc', 'composite', 'subtype', 'two_ids', 'one_phrase', 'null_ids', 'combined', 'refl_assoc', 'no_attrs']:
            out.append(Cond('links_%s_%s' % (shape, route), 'c01_rt.py', dict(family='links', dim=shape, route=route), timeout=t,
                            bound='schema %s: every link state over small pools; route %s' % (shape, route),
                            case_split=['vi (link state)'], realised=['serialised text / files'], twin=(route == 'db')))
        out.append(Cond('keywords_%s' % route, 'c01_rt.py', dict(family='keywords', route=route), timeout=t,
                        bound='class / attribute / identifier names from 23 SQL keywords and cardinality words; route %s' % route,
                        case_split=['vi'], realised=['serialised text / files'], twin=(route == 'db')))
    for dim in ['s', 'i', 'r', 'b', 'u']:
        out.append(Cond('inferred_%s' % dim, 'c01_rt.py', dict(family='types', dim=dim, route='inferred'), func='check_inferred',
                        timeout=t, bound='instances only (inferred schema): attribute %s over its pool' % dim,
                        case_split=['vi'], realised=['serialised text'], twin=(dim == 's')))
    n = 3 if tier == 'quick' else 4
    for part in ('string', 'scalar', 'ident'):
        out.append(Cond('lex_%s' % part, 'c01_lex.py', dict(N=(n if part == 'string' else 0), part=part, timeout_ms=120000 if tier == 'quick' else 1800000),
                        kind='script', timeout=900 if tier == 'quick' else 2 * 3600,
                        bound=('every string over all code points with |v| <= %d' % n) if part == 'string' else
                              ('every serialised scalar of length <= 48' if part == 'scalar' else 'every identifier of length <= 12'),
                        symbolic=['the value string / text (z3 sequence theory)']))
    return out
