from engine_api import Cond

PROPERTY = 'C03'
LEVEL = 'other'
ASSUMPTIONS = [
    'key values are hashed by the index join, hence case-split from small pools: ids {unset,0,1,2}, strings {unset,\'\',a,b}, integers {unset,0,1}, booleans, reals; composite keys over reduced pools',
    'null rule: unset, id 0, empty string; integers/booleans/reals have no null value',
    '2 referred rows, 2 referring rows (3 thorough); referring rows written before and after the referred ones',
    'model text is realised and parsed by PLY outside the tracer; build_metamodel runs traced',
]


def conditions(tier, seed):
    t = 300 if tier == 'quick' else 3000
    out = []
    for sch in ['uid', 'str', 'int', 'bool', 'real', 'uid_str', 'int_uid', 'int_int', 'shared']:
        nb = 2 if (tier == 'quick' or sch in ('uid_str', 'int_uid', 'int_int', 'shared')) else 3
        ns = 1 if sch in ('int', 'bool', 'real') else 4 if sch in ('uid', 'str', 'shared', 'int_int') else 8
        if tier == 'thorough':
            ns *= 4
        for sh in range(ns):
            out.append(Cond('join_%s_s%d' % (sch, sh), 'c03_join.py', dict(schema=sch, nb=nb, shard=sh, nshards=ns), timeout=t,
                            bound='schema %s: every assignment of pool key values to 2 referred and %d referring rows (shard %d/%d)' % (sch, nb, sh, ns),
                            case_split=['ci (key assignment)'], realised=['model text'],
                            twin=(sch in ('uid', 'uid_str') and sh == 0)))
    for sch in ('uid', 'str', 'uid_str'):
        for tc in ('lower', 'mixed'):
            out.append(Cond('join_%s_types_%s' % (sch, tc), 'c03_join.py', dict(schema=sch, nb=2, typecase=tc, shard=(seed if tier == 'quick' else 0) % 4, nshards=4 if tier == 'quick' else 1), timeout=t,
                            bound='schema %s with the type names written in %s case: every assignment of pool key values (null ids, empty strings) to 2 referred and 2 referring rows%s' % (sch, tc, ' (one seed-rotated quarter)' if tier == 'quick' else ''),
                            case_split=['ci (key assignment)'], realised=['model text'], twin=False))
    for sch in ('int_coll', 'uid_coll', 'real_coll', 'str_coll'):
        out.append(Cond('join_%s' % sch, 'c03_join.py', dict(schema=sch, nb=2), timeout=t,
                        bound='single key whose pool holds DIFFERENT values with EQUAL Python hashes (-1 / -2, 0 / 2**61-1, 1 / 2**61, -1.0 / -2.0) or equal up to case / blanks: every assignment to 2 referred and 2 referring rows',
                        case_split=['ci (key assignment)'], realised=['model text'], twin=False))
    out.append(Cond('join_two_identifiers', 'c03_join.py', dict(schema='uid'), func='check_two_ids', timeout=t,
                    bound='two associations from different classes into the same class through two different identifiers, referential attributes named alike; every key assignment, both statement orders',
                    case_split=['ci'], realised=['model text']))
    for sp in ('refl', 'phr', 'case'):
        out.append(Cond('special_' + sp, 'c03_join.py', dict(schema='uid', special=sp), func='check_special', timeout=t,
                        bound={'refl': 'reflexive association with phrases: 3 rows, every assignment of previous-row references incl. self-reference and dangling',
                               'phr': 'association with different phrases on its two ends: 3 referred rows, every assignment of references of 3 referring rows',
                               'case': 'association whose key attributes are spelled in another letter case than the classes declare'}[sp]
                              + '; loader vs key join, and rows created through new() vs loader',
                        case_split=['ci'], realised=['model text']))
    for model in ('explicit', 'linked', 'inferred'):
        n = {'explicit': 8, 'linked': 8, 'inferred': 5}[model]
        # all permutations (8! = 40320 for the explicit models: sharded; quick takes a seed-rotated slice)
        if model == 'inferred':
            out.append(Cond('order_%s_allperms' % model, 'c03_order.py', dict(model=model, route='input', perms='all'), timeout=t,
                            bound='inferred schema (no CREATE TABLE): all 120 row permutations x 5 partitions into input() calls',
                            case_split=['ci (permutation, partition)'], realised=['model text']))
        else:
            ns = 1024 if tier == 'quick' else 64
            picks = [(seed * 7 + k * 341) % ns for k in range(3)] if tier == 'quick' else [(seed * 5 + k * 4) % ns for k in range(16)]
            for sh in picks:
                out.append(Cond('order_%s_perms_s%d' % (model, sh), 'c03_order.py',
                                dict(model=model, route='input', perms='all', shard=sh, nshards=ns), timeout=t,
                                bound='%s model: statement permutations x 5 partitions, shard %d of %d of all 8! x 5' % (model, sh, ns),
                                case_split=['ci (permutation, partition)'], realised=['model text'], twin=(sh == picks[0])))
        for route in ('input', 'files', 'dir', 'zip'):
            out.append(Cond('order_%s_parts_%s' % (model, route), 'c03_order.py', dict(model=model, route=route, perms='few'), timeout=t,
                            bound='%s model: 4 permutations x every partition into up to three parts, given through %s' % (model, route),
                            case_split=['ci (permutation, partition)'], realised=['model text, files'], twin=(route in ('input', 'zip'))))
    for route in ('new', 'clone'):
        for sch in ['uid', 'str', 'int', 'uid_str', 'int_int', 'shared']:
            ns = 1 if sch == 'int' else 4 if sch in ('uid', 'str', 'shared', 'int_int') else 8
            for sh in range(ns):
                out.append(Cond('api_%s_%s_s%d' % (route, sch, sh), 'c03_api.py', dict(schema=sch, nb=2, shard=sh, nshards=ns, route=route),
                                timeout=t, bound='schema %s: rows created through %s (referred first) vs the same rows loaded; every pool key assignment within multiplicity (shard %d/%d)' % (sch, route, sh, ns),
                                case_split=['ci (key assignment)'], realised=['model text of the loaded twin'],
                                twin=(sh == 0 and sch == 'uid')))
    return out
