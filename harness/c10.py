from engine_api import Cond

PROPERTY = 'C10'
LEVEL = 'other'
ASSUMPTIONS = [
    'names of two letters (4 case patterns each); class Kl with identifying Id, plain Ab, referential Rf',
    'deleting an attribute that holds no value must raise (AttributeError/KeyError) and must not disturb any other value',
    'Class.__str__ stubbed (message formatting)',
]


def conditions(tier, seed):
    t = 300 if tier == 'quick' else 3000
    hl = 2 if tier == 'quick' else 3
    return [
        Cond('history', 'c10_names.py', dict(hlen=hl), func='check_hist', timeout=t,
             bound='every history of %d operations out of {set Ab, set Id, del Ab, del Id, relate, unrelate, set Rf, read Rf, set the referred identifier} x 4 spellings each, then all reads/queries under all spellings' % hl,
             symbolic=['v0..v3 written values (unbounded ints)', 'tid'], case_split=['c1..c3 (operation, spelling)']),
        Cond('history_linked', 'c10_names.py', dict(hlen=hl, linked=1), func='check_hist', timeout=t,
             bound='the same histories starting from a linked pair (a referential read under any spelling, then a write of the referred identifier, then reads)',
             symbolic=['v0..v3', 'tid'], case_split=['c1..c3'], twin=False),
        Cond('history_underscore', 'c10_names.py', dict(hlen=hl, names='underscore'), func='check_hist', timeout=t,
             bound='the same histories on attributes whose declared names begin with an underscore (_b, _d, _f)',
             symbolic=['v0..v3', 'tid'], case_split=['c1..c3'], twin=False),
        Cond('history_underscore_linked', 'c10_names.py', dict(hlen=2, names='underscore', linked=1), func='check_hist', timeout=t,
             bound='underscore names, starting from a linked pair, histories of 2', symbolic=['v0..v3', 'tid'], case_split=['c1', 'c2'], twin=False),
        Cond('ctor', 'c10_names.py', {}, func='check_ctor', timeout=t,
             bound='constructor: 4 kind spellings x every subset of {Ab, Id, Rf} keywords x 4 spellings each',
             symbolic=['va', 'vi', 'tid'], case_split=['ks', 's_ab', 's_id', 's_rf', 'use']),
        Cond('kind', 'c10_names.py', {}, func='check_kind', timeout=t,
             bound='class-name spelling in new/find_metaclass/select_*/find_class/define_class/attribute_type: 4x4 spellings',
             case_split=['a', 'b', 'which']),
        Cond('two_models', 'c10_names.py', {}, func='check_two_models', timeout=t,
             bound='two metamodels declaring class Kq with the attribute spelled Val / vAL: write and read on one (4 x 4 spellings), then write, reads, where_eq and stored names on the other; both orders',
             symbolic=['va', 'vb'], case_split=['sa', 'sb', 'sc', 'first']),
        Cond('late_class', 'c10_names.py', {}, func='check_late_class', timeout=t,
             bound='class looked up (find_class / find_metaclass / new / select_any) under one of 4 spellings before it is defined under one of 4 spellings; afterwards found, created and selected under every spelling',
             case_split=['a', 'b', 'which']),
        Cond('loaded', 'c10_names.py', {}, func='check_loaded', timeout=t,
             bound='loaded model, identifier that is also referential: re-relate / rewrite the referred id / unrelate, then read, query and serialize under all spellings',
             case_split=['op', 's1', 's2', 'v'], realised=['model text']),
        Cond('serialize', 'c10_names.py', {}, func='check_serialize', timeout=t,
             bound='two writes under any spelling, serialize_instance text', case_split=['c1', 'c2', 'v1', 'v2']),
    ]
