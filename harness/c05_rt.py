"""C05 / C06: prebuild followed by text generation reproduces the program; the prebuilt instances
form a well-formed, correctly typed population.
Programs (harness/c05_progs.py + the real bodies of the fixture model) and the action home are
case-split table indices; all program text is realised (it passes the OAL lexer).  prebuild_action
and gen_text_action run traced on the fixture model; both parses run outside the tracer.
C05 oracle: strict structural comparison of parse(text) and parse(gen(prebuild(text))).
C06 oracle: independent checks on the instances prebuild created (see check_population)."""
import os
import xtuml
from bridgepoint import oal, prebuild, sourcegen, ooaofooa
from xtuml import navigate_many as many, navigate_one as one, navigate_subtype as subtype
from hlib import POST, PARAMS, cs, case, known, notrace, stub_str
import c05_progs

stub_str()
# prebuild_action parses the body itself: PLY (parser construction and scanning) must run outside
# the tracer, on the realised text
_orig_parse = oal.parse


def _parse_untraced(text, label='<string>'):
    with notrace():
        return _orig_parse(text, label)


oal.parse = _parse_untraced
LAST_DIFF = None
WHICH = PARAMS.get('which', 'c05')          # c05 | c06
CORPUS = PARAMS.get('corpus', 'core')       # core | real
STYLE = PARAMS.get('style', 'lower')
FIXTURE = os.path.join(os.environ.get('VERIF_ROOT', '/verif'), 'fixtures', 'interp_model.xtuml')
LOADER = None
HOMES = ['function', 'instance_op', 'class_op', 'bridge', 'derived', 'struct_fn']


def loader():
    global LOADER
    if LOADER is None:
        LOADER = ooaofooa.Loader()
        LOADER.filename_input(FIXTURE)
    return LOADER


def build():
    """the fixture model + a second constant specification that defines PI again (and TAU)"""
    m = loader().build_metamodel(xtuml.IntegerGenerator())
    csp = m.select_one('CNST_CSP', lambda x: x.InformalGroupName == 'My_Constants')
    syc = one(csp).CNST_SYC[1504](lambda x: x.Name == 'PI')
    pkg = one(csp).PE_PE[8001].EP_PKG[8000]()
    pe = m.new('PE_PE', Visibility=1, type=10)
    csp2 = m.new('CNST_CSP', InformalGroupName='Other_Constants')
    xtuml.relate(csp2, pe, 8001)
    if pkg is not None:
        xtuml.relate(pe, pkg, 8000)
    for nm, val in (('PI', '6.28'), ('TAU', '6.28')):
        syc2 = m.new('CNST_SYC', Name=nm)
        lfsc = m.new('CNST_LFSC')
        lsc = m.new('CNST_LSC', Value=val)
        xtuml.relate(syc2, one(syc).S_DT[1500](), 1500)
        xtuml.relate(syc2, csp2, 1504)
        xtuml.relate(syc2, lfsc, 1502)
        xtuml.relate(lsc, lfsc, 1503)
    # a member named `length` on the structured type, and a function with a parameter of that type
    sdt = m.select_one('S_SDT')
    last = one(sdt).S_MBR[44](lambda x: not one(x).S_MBR[46, 'precedes']())
    mbr = m.new('S_MBR', Name='length')
    xtuml.relate(mbr, sdt, 44)
    xtuml.relate(mbr, m.select_one('S_DT', lambda x: x.Name == 'real'), 45)
    xtuml.relate(last, mbr, 46, 'precedes')
    proto = m.select_one('S_SYNC', lambda x: x.Name == 'Function')
    fn = m.new('S_SYNC', Name='Struct_Function', Suc_Pars=1)
    pe2 = m.new('PE_PE', Visibility=1, type=1)
    xtuml.relate(fn, pe2, 8001)
    xtuml.relate(pe2, one(proto).PE_PE[8001].EP_PKG[8000](), 8000)
    xtuml.relate(fn, one(proto).S_DT[25](), 25)
    par = m.new('S_SPARM', Name='seg')
    xtuml.relate(par, fn, 24)
    xtuml.relate(par, one(sdt).S_DT[17](), 26)
    return m


def carrier(m, home):
    if home == 'struct_fn':
        return m.select_one('S_SYNC', lambda s: s.Name == 'Struct_Function')
    if home == 'function':
        return m.select_one('S_SYNC', lambda s: s.Name == 'Function')
    if home == 'instance_op':
        return m.select_one('O_TFR', lambda s: s.Name == 'Instance_Based_Operation')
    if home == 'class_op':
        return m.select_one('O_TFR', lambda s: s.Name == 'Class_Based_Operation')
    if home == 'bridge':
        return m.select_one('S_BRG', lambda s: s.Name == 'LogInfo')
    if home == 'derived':
        return m.select_one('O_DBATTR')


def real_bodies():
    m = loader().build_metamodel(xtuml.IntegerGenerator())
    out = []
    for kind, home in (('S_SYNC', 'function'), ('O_TFR', 'op'), ('S_BRG', 'bridge'), ('O_DBATTR', 'derived')):
        for n, inst in enumerate(m.select_many(kind)):
            if inst.Action_Semantics_internal.strip():
                out.append((kind, n, inst.Action_Semantics_internal))
    return out


with notrace():
    if CORPUS == 'real':
        CASES = [('real', k, n, t) for k, n, t in real_bodies()]
    else:
        CASES = []
        for name, text, flags in c05_progs.P:
            for home in HOMES:
                if 's' in flags and home not in ('instance_op', 'derived'):
                    continue
                if 'p' in flags and home in ('bridge', 'derived'):
                    continue
                if 'b' in flags and home != 'bridge':
                    continue
                if ('t' in flags) != (home == 'struct_fn'):
                    continue
                if 's' not in flags and home == 'derived' and name not in ('assign_scalars', 'if_elif_else', 'select_related'):
                    continue
                CASES.append(('core', name, home, text))
    SHARD, NSHARDS = PARAMS.get('shard', 0), PARAMS.get('nshards', 1)
    CASES = CASES[SHARD::NSHARDS]
NCASES = len(CASES)
KEYWORDS = set(k.lower() for k in oal.OALParser.keywords) | {'end'}


def restyle(text, style):
    import re
    import oalgen
    if style == 'lower':
        return text
    out = []
    for tok in re.split(r'("[^"\n]*"|\'[^\']*\'|[A-Za-z_][A-Za-z_0-9]*)', text):
        if tok.lower() in KEYWORDS and not tok.startswith(('"', "'")) and tok != 'Class':     # 'Class' is a class of the fixture
            out.append(oalgen.kw(tok.lower(), style))
        else:
            out.append(tok)
    return ''.join(out)


INVOC = ('ImplicitInvocationNode', 'BridgeInvocationNode', 'ClassInvocationNode', 'PortInvocationNode')


def tree(n):
    """strict structural form of an AST; normalisations: keyword case of operator / boolean literal
    / cardinality; `bridge` / `transform` / `send` spellings of the same implicit invocation"""
    if n is None:
        return None
    if not isinstance(n, oal.Node):
        return repr(n)
    name = type(n).__name__
    if name in INVOC:
        name = 'ImplicitInvocationNode'
    d = [name]
    seen = {}
    for k, v in sorted(vars(n).items()):
        if k in ('position', 'character_stream', 'children'):
            continue
        if isinstance(v, oal.Node):
            seen[id(v)] = k
            d.append((k, tree(v)))
        elif isinstance(v, str) and (k in ('cardinality', 'operator') or (k == 'value' and isinstance(n, oal.BooleanNode))):
            d.append((k, v.lower()))
        else:
            d.append((k, v))
    ch = getattr(n, 'children', None)
    if ch:
        # a child that is also a named field is not walked twice (exponential in the nesting depth): its place is recorded
        d.append(('children', [('field', seen[id(c)]) if id(c) in seen else tree(c) for c in ch]))
    return d


def first_diff(a, b, path='root'):
    if type(a) != type(b):
        return path, a, b
    if isinstance(a, (list, tuple)):
        if len(a) != len(b):
            return path + '(len)', a, b
        for i, (x, y) in enumerate(zip(a, b)):
            d = first_diff(x, y, '%s/%s' % (path, a[0] if (i and isinstance(a[0], str)) else i))
            if d:
                return d
        return None
    return None if a == b else (path, a, b)


def get_case(ci):
    c = CASES[ci]
    m = build()
    if c[0] == 'real':
        _, kind, n, text = c
        inst = list(m.select_many(kind))[n]
        name = '%s#%d' % (kind, n)
    else:
        _, name, home, text = c
        inst = carrier(m, home)
        if home == 'derived' and 'self' not in text:
            text = text + 'self.Derived_Attribute = 1;\n'
        text = restyle(text, STYLE)
        name = '%s@%s' % (name, home)
    inst.Action_Semantics_internal = text
    return m, inst, text, name


def check_roundtrip(ci: int) -> bool:
    """
    pre: 0 <= ci < NCASES
    post: POST(_)
    """
    global LAST_DIFF
    ci = cs(ci, 0, NCASES - 1)
    with notrace():
        m, inst, text, name = get_case(ci)
        t0 = tree(oal.parse(text))
    prebuild.prebuild_action(inst)
    gen = sourcegen.gen_text_action(inst)
    case('c05', name, STYLE)
    with notrace():
        try:
            t1 = tree(oal.parse(gen))
        except oal.ParseException as e:
            LAST_DIFF = ('generated text does not parse', name, str(e), gen); return False
        d = first_diff(t0, t1)
        if d is not None:
            if 'VariableAccessNode' in repr(d) and 'EnumOrNamedConstantNode' in repr(d) and known('C05/bare-constant-regenerated-qualified'):
                return None
            LAST_DIFF = ('syntax tree differs after prebuild + text generation', name, d, gen); return False
        # translating the generated text again (fresh model) yields the same generated text
        m2 = build()
        inst2 = [i for i in m2.select_many(xtuml.get_metaclass(inst).kind)][list(m.select_many(xtuml.get_metaclass(inst).kind)).index(inst)]
        inst2.Action_Semantics_internal = gen
    prebuild.prebuild_action(inst2)
    gen2 = sourcegen.gen_text_action(inst2)
    if gen2 != gen:
        LAST_DIFF = ('second translation changes the generated text', name, gen, gen2); return False
    return True


# ------------------------------------------------------------------------------------------------
# C06

LITERAL_TYPES = {'V_LIN': 'integer', 'V_LBO': 'boolean', 'V_LST': 'string', 'V_LRL': 'real'}
BOOL_OPS = ('<', '<=', '>', '>=', '==', '!=', 'and', 'or')


def violations(m):
    return xtuml.check_association_integrity(m) + xtuml.check_uniqueness_constraint(m)


def subtypes_of(inst, rel):
    """all instances related to inst across rel (a subtype association: several links, same number)"""
    mc = xtuml.get_metaclass(inst)
    out = []
    for (kind, r, phrase), link in mc.links.items():
        if r == rel and link.to_metaclass is not mc:
            out.extend(link.navigate(inst))
    return out


def declared_classes(text):
    """{variable: ('inst' | 'set', key letters)} read off the source text: the class an instance variable
    refers to is fixed by the statement that first declares it (select / create / for each / copy)"""
    import re
    out = {}
    bad = set()

    def put(v, kind, kl):
        if v in out and out[v] != (kind, kl):
            bad.add(v)
        out.setdefault(v, (kind, kl))
    for stmt in re.split(r';|\n', text):
        st = stmt.strip()
        mt = re.match(r'(?i)select\s+(one|any|many)\s+(\w+)\s+related\s+by\s+(.*)$', st)
        if mt:
            chain = re.split(r'(?i)\swhere\b', mt.group(3))[0]
            steps = re.findall(r'->\s*(\w+)\s*\[', chain)
            if steps:
                put(mt.group(2), 'set' if mt.group(1).lower() == 'many' else 'inst', steps[-1])
            continue
        mt = re.match(r'(?i)select\s+(any|many)\s+(\w+)\s+from\s+(?:instances\s+of\s+)?(\w+)', st)
        if mt:
            put(mt.group(2), 'set' if mt.group(1).lower() == 'many' else 'inst', mt.group(3)); continue
        mt = re.match(r'(?i)create\s+object\s+instance\s+(\w+)\s+of\s+(\w+)$', st)
        if mt:
            put(mt.group(1), 'inst', mt.group(2)); continue
        mt = re.match(r'(?i)for\s+each\s+(\w+)\s+in\s+(\w+)', st)
        if mt and out.get(mt.group(2), ('', ''))[0] == 'set':
            put(mt.group(1), 'inst', out[mt.group(2)][1]); continue
        mt = re.match(r'(?i)(?:assign\s+)?(\w+)\s*=\s*(\w+)$', st)
        if mt and mt.group(2) in out and mt.group(1) not in out:
            put(mt.group(1), out[mt.group(2)][0], out[mt.group(2)][1])
    return {k: v for k, v in out.items() if k not in bad and k.lower() != 'self'}


def check_population(m, before_ids, text, name):
    """returns None when everything holds, else a diff tuple"""
    new = lambda kind: [i for i in m.select_many(kind) if id(i) not in before_ids]
    # exactly one subtype per statement / value
    for s in new('ACT_SMT'):
        subs = [x for x in subtypes_of(s, 'R603') if type(x).__name__ not in ('ACT_BLK',)]
        if len(subs) != 1:
            return ('statement with %d subtypes' % len(subs), s.LineNumber, [type(x).__name__ for x in subs])
    for v in new('V_VAL'):
        subs = subtypes_of(v, 'R801')
        if len(subs) != 1:
            return ('value with %d subtypes' % len(subs), v.LineNumber, v.StartPosition, [type(x).__name__ for x in subs])
    # statement chains: per block, R661 order = source order, none at the ends
    lines = text.split('\n')
    for blk in new('ACT_BLK'):
        # elif / else clauses are statements of the enclosing block that hang off their if statement
        # (R682 / R683); they are not part of the succession chain
        smts = [s for s in many(blk).ACT_SMT[602]() if not one(s).ACT_EL[603]() and not one(s).ACT_E[603]()]
        order = sorted(smts, key=lambda s: (s.LineNumber, s.StartPosition))
        for a, b in zip(order, order[1:]):
            if one(a).ACT_SMT[661, 'precedes']() is not b or one(b).ACT_SMT[661, 'succeeds']() is not a:
                return ('statement chain (R661) is not source order', a.LineNumber, b.LineNumber)
            if b.Previous_Statement_ID != a.Statement_ID:
                return ('Previous_Statement_ID', b.LineNumber)
        if order:
            if one(order[0]).ACT_SMT[661, 'succeeds']() is not None or one(order[-1]).ACT_SMT[661, 'precedes']() is not None:
                return ('statement chain does not end at the block ends', order[0].LineNumber)
            if order[0].Previous_Statement_ID not in (None, 0):
                return ('first statement has a previous statement', order[0].LineNumber)
    # statements carry line and first column of their source text
    for s in new('ACT_SMT'):
        ln, col = s.LineNumber, s.StartPosition
        if not (1 <= ln <= len(lines)):
            return ('statement line out of range', ln)
        src = lines[ln - 1]
        if one(s).ACT_EL[603]() or one(s).ACT_E[603]():
            continue      # elif / else clauses: only the line is checked (whether the keyword belongs to the clause is not settled)
        if col < 1 or col > len(src) or src[col - 1] in ' \t' or (col > 1 and src[col - 2] not in ' \t;)'):
            return ('statement position is not the first column of its text', ln, col, src)
        if src[:col - 1].strip() == '' and col - 1 != len(src) - len(src.lstrip()):
            return ('statement position is not the first column of its text', ln, col, src)
    # the parameters of ONE invocation form exactly one R816 chain, in source order
    owners = {}
    for par in new('V_PAR'):
        own = None
        for kind, rel in (('V_BRV', 810), ('V_TRV', 811), ('V_FNV', 817), ('V_MSV', 842), ('ACT_TFM', 627), ('ACT_BRG', 628),
                          ('ACT_FNC', 669), ('ACT_IOP', 679), ('ACT_SGN', 662), ('E_ESS', 700)):
            own = getattr(one(par), kind)[rel]()
            if own is not None:
                break
        if own is None:
            return ('parameter belongs to no invocation', par.Name)
        owners.setdefault(id(own), []).append(par)
    for pars in owners.values():
        posn = lambda q: (one(q).V_VAL[800]().LineNumber, one(q).V_VAL[800]().StartPosition)
        order = sorted(pars, key=posn)
        for x, y in zip(order, order[1:]):
            if one(x).V_PAR[816, 'precedes']() is not y or one(y).V_PAR[816, 'succeeds']() is not x:
                return ('next parameter (R816) of %s is not %s, the next parameter of the same invocation' % (x.Name, y.Name), posn(x))
        if one(order[-1]).V_PAR[816, 'precedes']() is not None:
            return ('last parameter %s of an invocation has a next parameter' % order[-1].Name, posn(order[-1]))
        if one(order[0]).V_PAR[816, 'succeeds']() is not None:
            return ('first parameter %s of an invocation has a previous parameter' % order[0].Name, posn(order[0]))
    # instance variables refer to the class their declaring statement selects / creates
    exp_vars = declared_classes(text)
    for var in new('V_VAR'):
        if var.Name not in exp_vars:
            continue
        kind, kl = exp_vars[var.Name]
        o_obj = one(var).V_INT[814].O_OBJ[818]() if kind == 'inst' else one(var).V_INS[814].O_OBJ[819]()
        if o_obj is None:
            return ('variable %s is not an instance %s' % (var.Name, 'handle' if kind == 'inst' else 'set'),)
        if o_obj.Key_Lett != kl:
            return ('variable %s refers to class %s, declared by its statement as %s' % (var.Name, o_obj.Key_Lett, kl),)
        dt = one(var).S_DT[848]()
        want = 'inst_ref<Object>' if kind == 'inst' else 'inst_ref_set<Object>'
        if dt is None or (dt.Name != want and not (one(dt).S_IRDT[17]() and one(dt).S_IRDT[17].O_OBJ[123]() is o_obj)):
            return ('variable %s typed %s' % (var.Name, getattr(dt, 'Name', None)),)
    # parameter chains: R816 order = source order (by position of the value)
    for par in new('V_PAR'):
        nxt = one(par).V_PAR[816, 'precedes']()
        if nxt is not None:
            v1, v2 = one(par).V_VAL[800](), one(nxt).V_VAL[800]()
            if (v1.LineNumber, v1.StartPosition) >= (v2.LineNumber, v2.StartPosition):
                return ('parameter chain (R816) is not source order', par.Name, nxt.Name)
            if par.Next_Value_ID != nxt.Value_ID:
                return ('Next_Value_ID', par.Name)
        elif par.Next_Value_ID not in (None, 0):
            return ('last parameter has a next parameter', par.Name)
    # navigation step chains: R604
    for lnk in new('ACT_LNK'):
        nxt = one(lnk).ACT_LNK[604, 'precedes']()
        if nxt is not None and lnk.Next_Link_ID != nxt.Link_ID:
            return ('Next_Link_ID', lnk.Rel_Phrase)
        if nxt is None and lnk.Next_Link_ID not in (None, 0):
            return ('last navigation step has a next step',)
    # typing: literals, comparison / boolean operators, unary operators
    for v in new('V_VAL'):
        sub = subtypes_of(v, 'R801')[0]
        dt = one(v).S_DT[820]()
        kind = type(sub).__name__
        if dt is None:
            return ('value without data type', kind, v.LineNumber, v.StartPosition)
        if kind in LITERAL_TYPES and dt.Name != LITERAL_TYPES[kind]:
            return ('literal type', kind, dt.Name)
        if kind == 'V_BIN' and sub.Operator.lower() in BOOL_OPS and dt.Name != 'boolean':
            return ('comparison / boolean operator not typed boolean', sub.Operator, dt.Name)
        if kind == 'V_UNY':
            op = sub.Operator.lower()
            if op == 'cardinality' and dt.Name != 'integer':
                return ('cardinality not typed integer', dt.Name)
            if op in ('not', 'empty', 'not_empty') and dt.Name != 'boolean':
                return ('%s not typed boolean' % op, dt.Name)
        if kind == 'V_AVL':
            o_attr = one(sub).O_ATTR[806]()
            if o_attr is not None and one(o_attr).S_DT[114]() is not dt and ooaofooa.get_attribute_type(o_attr) is not dt:
                return ('attribute read not typed as the attribute', o_attr.Name, dt.Name)
            # a read through `selected` refers to an attribute of the class the enclosing selection ranges over
            # (class read off the source line: `from instances of K where` / `...->K[Rn...] where`)
            root = one(sub).V_VAL[807]()
            if o_attr is not None and root is not None and one(root).V_SLR[801]() is not None and 0 < v.LineNumber <= len(lines):
                import re as _re
                ln = lines[v.LineNumber - 1]
                mm = _re.search(r'(?i)from\s+instances\s+of\s+(\w+)\s+where', ln) or _re.search(r'(?i)->\s*(\w+)\s*\[[^\]]*\]\s*where', ln)
                o_obj = one(o_attr).O_OBJ[102]()
                if mm and o_obj is not None and o_obj.Key_Lett != mm.group(1):
                    return ('attribute read through selected refers to an attribute of another class', o_attr.Name, o_obj.Key_Lett, mm.group(1))
        if kind == 'V_MVL':
            s_mbr = one(sub).S_MBR[836]()
            if s_mbr is None or one(s_mbr).S_DT[45]() is not dt:
                return ('member read not typed as the member', getattr(s_mbr, 'Name', None), dt.Name)
        if kind == 'V_ALV' and dt.Name != 'integer':
            return ('array length not typed integer', dt.Name)
        if kind == 'V_ALV':
            bdt = one(one(sub).V_VAL[840]()).S_DT[820]()
            while bdt is not None and one(bdt).S_UDT[17]():
                bdt = one(bdt).S_UDT[17].S_DT[18]()
            if bdt is not None and one(bdt).S_SDT[17].S_MBR[44](lambda x: x.Name == 'length'):
                return ('a structure member named length is read as an array length (typed integer, not as the member)', bdt.Name)
        if kind == 'V_IRF' and not dt.Name.startswith('inst_ref<'):
            return ('instance reference type', dt.Name)
        if kind == 'V_ISR' and not dt.Name.startswith('inst_ref_set<'):
            return ('instance set reference type', dt.Name)
    # every variable belongs to exactly one block
    for var in new('V_VAR'):
        if one(var).ACT_BLK[823]() is None:
            return ('variable without block', var.Name)
    return None


def check_wellformed(ci: int) -> bool:
    """
    pre: 0 <= ci < NCASES
    post: POST(_)
    """
    global LAST_DIFF
    ci = cs(ci, 0, NCASES - 1)
    with notrace():
        m, inst, text, name = get_case(ci)
        before = violations(m)
        before_ids = set(id(i) for i in m.instances)
    prebuild.prebuild_action(inst)
    case('c06', name, STYLE)
    with notrace():
        after = violations(m)
        if after > before:
            LAST_DIFF = ('prebuild introduced %d multiplicity / uniqueness violations' % (after - before), name); return False
        d = check_population(m, before_ids, text, name)
        if d is not None:
            LAST_DIFF = (d, name); return False
    return True


# ------------------------------------------------------------------------------------------------
# C08 (prebuild level): bodies differing only in keyword case produce the same prebuilt instances

def population(m, before_ids):
    out = {}
    for inst in m.instances:
        if id(inst) in before_ids:
            continue
        mc = xtuml.get_metaclass(inst)
        row = tuple((n, getattr(inst, n)) for n, t in mc.attributes if t.upper() != 'UNIQUE_ID'
                    and not (mc.kind == 'ACT_SMT' and n == 'Label'))      # ACT_SMT.Label = the recorded source text
        # data types are relations, not attributes: V_VAL -R820-> S_DT, V_VAR -R848-> S_DT
        if mc.kind == 'V_VAL':
            row += (('R820', getattr(one(inst).S_DT[820](), 'Name', None)),)
        elif mc.kind == 'V_VAR':
            row += (('R848', getattr(one(inst).S_DT[848](), 'Name', None)),)
        out.setdefault(mc.kind, []).append(row)
    return {k: sorted(v, key=repr) for k, v in out.items()}


def check_case_prebuild(ci: int) -> bool:
    """
    pre: 0 <= ci < NCASES
    post: POST(_)
    """
    global LAST_DIFF, STYLE
    ci = cs(ci, 0, NCASES - 1)
    pops = []
    for st in ('lower', STYLE):
        with notrace():
            saved = STYLE
            globals()['STYLE'] = st
            try:
                m, inst, text, name = get_case(ci)
            finally:
                globals()['STYLE'] = saved
            before_ids = set(id(i) for i in m.instances)
        prebuild.prebuild_action(inst)
        with notrace():
            pops.append(population(m, before_ids))
    case('c08-prebuild', name, STYLE)
    if pops[0] != pops[1]:
        diff = {k: (pops[0].get(k), pops[1].get(k)) for k in set(pops[0]) | set(pops[1]) if pops[0].get(k) != pops[1].get(k)}
        LAST_DIFF = ('prebuilt instances differ between lower-case and %s keywords' % STYLE, name, diff); return False
    return True
