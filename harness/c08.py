from engine_api import Cond
import oalprogs

PROPERTY = 'C08'
LEVEL = 'other'
ASSUMPTIONS = [
    'parse level: 33 core programs + 10 carrier statements covering the remaining keywords x {UPPER, Capitalised, aLtErNaTiNg}; trees compared strictly with cardinality / operator / boolean literal lower-cased; text realised, parsed outside the tracer',
    'execution: every core program is parsed from its UPPER-case (and, for programs with keyword-carrying AST fields, alternating-case) text and executed traced with symbolic data; result and final population must equal the reference evaluator = the lower-case semantics',
    'symbolic spellings: the first three keyword-carrying AST fields (select cardinality, and/or/not/empty/not_empty/cardinality operators, boolean literals) are SYMBOLIC strings constrained only to the keyword letters in either case (all 2^len spellings in one condition)',
    'prebuild level: every program of the C05 corpus in every action home is prebuilt from its lower-case and its UPPER / alternating-case text; all attribute values of the created instances (ids excepted) must agree',
]
NFIELDS = {'bool_ops': 3, 'bool_ne_ge': 3, 'select_many_where': 2, 'where_and': 3, 'nav_where_sum': 3, 'nav_from_set': 3,
           'empty_card': 3, 'relate_unrelate': 3, 'foreach_write': 2, 'select_any_where': 2, 'create_relate': 3,
           'reflexive': 3, 'delete_loop': 3, 'bool_attr': 1}
FIELD_LEN = {('select_many_where', 1): 11, ('nav_where_sum', 1): 9, ('foreach_write', 1): 11, ('select_any_where', 1): 9,
             ('create_relate', 2): 11, ('delete_loop', 2): 9}
KWPROGS = ['bool_ops', 'bool_ne_ge', 'select_many_where', 'where_and', 'nav_where_sum', 'nav_from_set', 'empty_card',
           'relate_unrelate', 'foreach_write', 'select_any_where', 'create_relate', 'reflexive', 'delete_loop', 'bool_attr']


def conditions(tier, seed):
    t = 600 if tier == 'quick' else 6000
    out = [Cond('parse', 'c08_parse.py', {}, timeout=t, bound='47 bodies x 3 keyword case styles', case_split=['pi', 'si'],
                realised=['program text'])]
    names = [n for n, _ in oalprogs.PROGRAMS]
    for n in names:
        styles = ['upper'] + (['mixed'] if (n in KWPROGS or tier == 'thorough') else []) + (['cap'] if tier == 'thorough' else [])
        for st in styles:
            out.append(Cond('exec_%s_%s' % (st, n), 'c04_interp.py', dict(prog=n, style=st), timeout=t,
                            bound='skeleton %s parsed from %s-case text; all parameter / attribute values; 9 link states' % (n, st),
                            symbolic=['a0', 'a1', 'ab0', 'ab1', 'v0', 'v1', 'p1', 'p2', 'pb', 'pn'], case_split=['ls'],
                            realised=['program text'], twin=(st == 'upper')))
    import importlib, os, sys
    for st in (['upper', 'mixed'] if tier == 'quick' else ['upper', 'mixed', 'cap']):
        for sh in range(4):
            out.append(Cond('prebuild_%s_s%d' % (st, sh), 'c05_rt.py', dict(which='c08', corpus='core', style=st, shard=sh, nshards=4),
                            func='check_case_prebuild', timeout=900,
                            bound='C05 corpus x action homes: instances prebuilt from the %s-case body equal those of the lower-case body (all attributes except ids)' % st,
                            case_split=['ci'], realised=['program text'], twin=(sh == 0)))
    for g in ['side_effect_operands', 'in_where', 'instance_op', 'recursion', 'return_forms', 'bridge']:
        for st in ('upper', 'mixed'):
            out.append(Cond('calls_%s_%s' % (st, g), 'c15_calls.py', dict(graph=g, style=st), timeout=t,
                            bound='call graph %s with %s-case keywords in every body: result and final attribute values equal the reference (= lower-case semantics)' % (g, st),
                            symbolic=['a', 'b', 'v0', 'v1', 'n in 0..4'], realised=['program text'], twin=(st == 'upper')))
            out.append(Cond('callsdiff_%s_%s' % (st, g), 'c15_calls.py', dict(graph=g, style=st), func='check_case', timeout=t,
                            bound='call graph %s: lower-case bodies vs %s-case bodies executed side by side, same result and final values' % (g, st),
                            symbolic=['a', 'b', 'v0', 'v1', 'n in 0..4'], realised=['program text'], twin=False))
    import oalgen
    for n in KWPROGS:
        for fi in range(NFIELDS.get(n, 1)):
            if tier == 'quick' and FIELD_LEN.get((n, fi), 3) > 5:
                continue      # 2^len spellings at about 1 s per path: long keywords only in the thorough tier
            out.append(Cond('spelling_%s_f%d' % (n, fi), 'c04_interp.py', dict(prog=n, field=fi), func='check_spelling', timeout=t,
                            bound='skeleton %s: keyword field %d with a symbolic spelling (every letter either case); fixed data' % (n, fi),
                            symbolic=['s (keyword spelling, each letter either case)']))
    return out
