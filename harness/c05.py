from engine_api import Cond

PROPERTY = 'C05'
LEVEL = 'exploration'
EXPLANATION = ('bounded exploration: the solver enumerates (program, action home) indices of a fixed corpus; prebuild_action and '
               'gen_text_action run on the real fixture model under CrossHair; no program data is symbolic-through (names and literals must pass the OAL lexer)')
ASSUMPTIONS = [
    'program corpus: 40 hand-written bodies (harness/c05_progs.py) covering scalar / attribute / array assignment, control flow, create/delete, relate/unrelate (+using), every select form with where clauses and multi-step chains, function / bridge / class and instance operation invocations as statements and in expressions, parameters, enumerators, constants (incl. one constant name defined by two specifications), nested invocations as parameter values, bridges as values, bridge and structured parameters, structure members and array length, set operators, empty statements, self; each placed in every compatible action home (function, instance operation, class operation, bridge, derived attribute); plus the 26 real bodies of the fixture model',
    'strict comparison of syntax trees (node class, every scalar field, child count and order) with these normalisations only: letter case of operator / boolean literal / cardinality keywords, and bridge / transform / send spellings of the same implicit invocation',
    'names are resolved against fixtures/interp_model.xtuml; text is realised and parsed outside the tracer',
]


def conditions(tier, seed):
    t = 900 if tier == 'quick' else 3000
    out = []
    ns = 8
    for sh in range(ns):
        out.append(Cond('roundtrip_core_s%d' % sh, 'c05_rt.py', dict(which='c05', corpus='core', shard=sh, nshards=ns), func='check_roundtrip',
                        timeout=t, bound='core corpus x action homes (shard %d/%d): parse(text) vs parse(gen(prebuild(text))), and second translation' % (sh, ns),
                        case_split=['ci (program, home)'], realised=['program text'], twin=(sh == 0)))
    for sh in range(4):
        out.append(Cond('roundtrip_real_s%d' % sh, 'c05_rt.py', dict(which='c05', corpus='real', shard=sh, nshards=4), func='check_roundtrip',
                        timeout=t, bound='the 26 real bodies of the fixture model (shard %d/4)' % sh,
                        case_split=['ci'], realised=['program text'], twin=(sh == 0)))
    if tier == 'thorough':
        for st in ('upper', 'mixed'):
            for sh in range(ns):
                out.append(Cond('roundtrip_core_%s_s%d' % (st, sh), 'c05_rt.py', dict(which='c05', corpus='core', style=st, shard=sh, nshards=ns),
                                func='check_roundtrip', timeout=t, bound='core corpus with %s-case keywords' % st,
                                case_split=['ci'], realised=['program text'], twin=False))
    # second, synthesised model (classes A/B/C/L, R1 simple, R2 reflexive, R3 linked, function F) with the interpreter's skeletons
    # and a seeded generated program family; C05 oracle here also ABSOLUTE: the regenerated text, parsed and lifted, is the mini-AST the program was printed from
    q = tier == 'quick'
    for sh in range(2):
        out.append(Cond('synth_core_s%d' % sh, 'c05_gen.py', dict(family='core', shard=sh, nshards=2), func='check', timeout=t,
                        bound='36 statement skeletons as the body of a function of a synthesised BridgePoint model (shard %d/2)' % sh,
                        case_split=['program'], realised=['program text'], twin=(sh == 0)))
    nsh = 2 if q else 16
    for sh in range(nsh):
        out.append(Cond('synth_gen_s%d' % sh, 'c05_gen.py', dict(family='gen', seed=seed + 0, count=24 if q else 480, shard=sh, nshards=nsh), func='check', timeout=t,
                        bound='%d generated programs (seed %d, nesting depth <= 3 per construct) on the synthesised model (shard %d/%d)' % (24 if q else 480, seed + 0, sh, nsh),
                        case_split=['program'], realised=['program text'], twin=False))
    return out
