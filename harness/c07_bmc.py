"""C07 (expressions): bounded model check of the OAL LALR(1) automaton.

The action / goto tables are recomputed by ply.yacc from the grammar docstrings and the precedence
tuple of the scratch copy's bridgepoint/oal.py (never from the cached __oal_parsetab.py) and the
PLY driver loop (shift / reduce+goto / accept / error) is unrolled as a bit-vector transition
system over a SYMBOLIC token string  RETURN t1 .. tN ;  with an explicit stack.  Every stack slot
carries a label: 0 atom / parenthesised, 7 unary, 1..6 the REFERENCE level of the binary operator
that produced it (or < and < comparison < additive {+ - |} < multiplicative {* / & ^} < modulo; this
table is the oracle, written from the property statement).
Queries per cube (prefix of the token string):
  unwind      running or stack overflow after T steps            must be unsat
  witness     accepted                                           sat (when the cube is viable)
  soundness   accepted and some reduction violates the local precedence conditions    must be unsat
  complete    wellformed(t) and not accepted                     must be unsat
  tight       accepted and not wellformed(t)                     must be unsat  (keeps wellformed honest)
Every sat model is rendered to text and replayed through the real oal.parse and a reference
precedence-climbing parser; only a reproduced disagreement is reported as a violation."""
import json
import os
import sys
import time

import z3

SCRATCH = os.environ['VERIF_SCRATCH']
sys.path.insert(0, SCRATCH)
PARAMS = json.loads(os.environ.get('VERIF_PARAMS', '{}'))
N = PARAMS.get('N', 4)
CUBES = PARAMS.get('cubes', [[]])
TIMEOUT = PARAMS.get('timeout_ms', 300000)

from ply import yacc  # noqa
from bridgepoint import oal  # noqa

obj = object.__new__(oal.OALParser)
P = yacc.yacc(module=obj, write_tables=False, debug=False, errorlog=yacc.NullLogger(), optimize=0,
              tabmodule='__verif_nonexistent_tab')
prods = P.productions
BIN = ['PLUS', 'MINUS', 'PIPE', 'TIMES', 'DIV', 'MOD', 'AMP', 'CARET', 'LE', 'LESSTHAN', 'DOUBLEEQUAL', 'NOTEQUAL', 'GE', 'GT',
       'AND', 'OR']
UNY = ['NOT', 'EMPTY', 'NOT_EMPTY', 'CARDINALITY', 'PLUS', 'MINUS']
OPERANDS = ['NUMBER', 'TRUE']
REF = {'OR': 1, 'AND': 2, 'LE': 3, 'LESSTHAN': 3, 'DOUBLEEQUAL': 3, 'NOTEQUAL': 3, 'GE': 3, 'GT': 3,
       'PLUS': 4, 'MINUS': 4, 'PIPE': 4, 'TIMES': 5, 'DIV': 5, 'AMP': 5, 'CARET': 5, 'MOD': 6}
LEXEME = {'NUMBER': '1', 'TRUE': 'true', 'PLUS': '+', 'MINUS': '-', 'PIPE': '|', 'TIMES': '*', 'DIV': '/', 'MOD': '%', 'AMP': '&',
          'CARET': '^', 'LE': '<=', 'LESSTHAN': '<', 'DOUBLEEQUAL': '==', 'NOTEQUAL': '!=', 'GE': '>=', 'GT': '>', 'AND': 'and',
          'OR': 'or', 'NOT': 'not', 'EMPTY': 'empty', 'NOT_EMPTY': 'not_empty', 'CARDINALITY': 'cardinality', 'LPAREN': '(',
          'RPAREN': ')'}
ALPHA = OPERANDS + BIN + [u for u in UNY if u not in BIN] + ['LPAREN', 'RPAREN']
FRAME = ['RETURN', 'SEMICOLON', '$end']
TOK = {name: i for i, name in enumerate(ALPHA + FRAME)}
nts = sorted({pr.name for pr in prods})
NT = {n: i for i, n in enumerate(nts)}
reach = {0}
work = [0]
while work:
    s0 = work.pop()
    for tok, a in P.action.get(s0, {}).items():
        if tok in TOK and a is not None and a > 0 and a not in reach:
            reach.add(a); work.append(a)
    for nt, g in P.goto.get(s0, {}).items():
        if g not in reach:
            reach.add(g); work.append(g)
SID = {s: i for i, s in enumerate(sorted(reach))}
W = 9
assert len(reach) < 2 ** W


def bv(v, w=W):
    return z3.BitVecVal(v, w)


acts = []
usedprods = set()
for st in sorted(reach):
    for tok, v in P.action.get(st, {}).items():
        if tok not in TOK or v is None:
            continue
        if v > 0:
            acts.append((SID[st], TOK[tok], 1, SID[v]))
        elif v < 0:
            acts.append((SID[st], TOK[tok], 2, -v)); usedprods.add(-v)
        else:
            acts.append((SID[st], TOK[tok], 3, 0))
gotos = [(SID[st], NT[nt], SID[v]) for st in sorted(reach) for nt, v in P.goto.get(st, {}).items()]


def pinfo(r):
    pr = prods[r]
    kind = 0
    lvl = 0
    if pr.name == 'expression':
        if pr.len == 3 and pr.prod[0] == 'expression' and pr.prod[2] == 'expression':
            kind = 3
            lvl = REF.get(pr.prod[1], 0)
        elif pr.len == 2 and pr.prod[0] == 'unary_operator':
            kind = 2
        else:
            kind = 1
    return pr.len, NT[pr.name], kind, lvl


def encode(n, timeout_ms):
    T = 3 * n + 14
    D = n + 6
    s = z3.SolverFor('QF_BV')
    s.set('timeout', timeout_ms)
    toks = [z3.BitVec('t%d' % i, 6) for i in range(n)]
    ln = z3.BitVec('len', 5)
    s.add(ln == n)
    for t in toks:
        s.add(z3.ULT(t, len(ALPHA)))

    def inp(pos):
        e = z3.BitVecVal(TOK['$end'], 6)
        for i in range(n + 2):
            if i == 0:
                v = z3.BitVecVal(TOK['RETURN'], 6)
            else:
                j = i - 1
                v = z3.If(z3.ULT(bv(j, 5), ln), toks[j] if j < n else z3.BitVecVal(0, 6),
                          z3.If(ln == j, z3.BitVecVal(TOK['SEMICOLON'], 6), z3.BitVecVal(TOK['$end'], 6)))
            e = z3.If(pos == i, v, e)
        return e

    def rd(arr, idx, w):
        e = z3.BitVecVal(0, w)
        for j in range(D):
            e = z3.If(idx == j, arr[j], e)
        return e
    st = [bv(0) for _ in range(D)]
    lb = [z3.BitVecVal(15, 4) for _ in range(D)]
    sp = z3.BitVecVal(0, 5)
    pos = z3.BitVecVal(0, 5)
    running = z3.BoolVal(True)
    accepted = z3.BoolVal(False)
    bad = z3.BoolVal(False)
    overflow = z3.BoolVal(False)
    for k in range(T):
        stk = [z3.BitVec('st%d_%d' % (k, j), W) for j in range(D)]
        lbk = [z3.BitVec('lb%d_%d' % (k, j), 4) for j in range(D)]
        spk = z3.BitVec('sp%d' % k, 5)
        pk = z3.BitVec('pos%d' % k, 5)
        rk = z3.Bool('run%d' % k)
        for j in range(D):
            s.add(stk[j] == st[j], lbk[j] == lb[j])
        s.add(spk == sp, pk == pos, rk == running)
        top = rd(stk, spk, W)
        la = inp(pk)
        akind = z3.BitVec('ak%d' % k, 2)
        aarg = z3.BitVec('aa%d' % k, W)
        ek = z3.BitVecVal(0, 2)
        ea = bv(0)
        for (sid, tok, kind, arg) in acts:
            c = z3.And(top == sid, la == tok)
            ek = z3.If(c, z3.BitVecVal(kind, 2), ek)
            ea = z3.If(c, bv(arg), ea)
        s.add(akind == ek, aarg == ea)
        is_shift = z3.And(rk, akind == 1)
        is_red = z3.And(rk, akind == 2)
        is_acc = z3.And(rk, akind == 3)
        is_err = z3.And(rk, akind == 0)
        plen = z3.BitVecVal(0, 5)
        lhs = z3.BitVecVal(0, 8)
        kind = z3.BitVecVal(0, 2)
        lvl = z3.BitVecVal(0, 4)
        for r in sorted(usedprods):
            pl, nt, kd, lv = pinfo(r)
            c = aarg == r
            plen = z3.If(c, z3.BitVecVal(pl, 5), plen)
            lhs = z3.If(c, z3.BitVecVal(nt, 8), lhs)
            kind = z3.If(c, z3.BitVecVal(kd, 2), kind)
            lvl = z3.If(c, z3.BitVecVal(lv, 4), lvl)
        base = spk - plen
        under = rd(stk, base, W)
        g = bv(0)
        for (sid, nt, v) in gotos:
            g = z3.If(z3.And(under == sid, lhs == nt), bv(v), g)
        gk = z3.BitVec('g%d' % k, W)
        s.add(gk == g)
        lc = rd(lbk, spk - 2, 4)
        rc = rd(lbk, spk, 4)
        atomish = lambda c: z3.Or(c == 0, c == 7)
        okl = z3.Or(atomish(lc), z3.If(lvl == 3, z3.UGT(lc, lvl), z3.UGE(lc, lvl)))
        okr = z3.Or(atomish(rc), z3.UGT(rc, lvl))
        viol = z3.If(kind == 2, z3.Not(atomish(rc)),
                     z3.If(kind == 3, z3.Not(z3.And(okl, okr, lc != 15, rc != 15, lvl != 0)), False))
        lab = z3.If(kind == 1, z3.BitVecVal(0, 4), z3.If(kind == 2, z3.BitVecVal(7, 4), z3.If(kind == 3, lvl, z3.BitVecVal(15, 4))))
        nsp = z3.If(is_shift, spk + 1, z3.If(is_red, base + 1, spk))
        overflow = z3.Or(overflow, z3.And(z3.Or(is_shift, is_red), z3.UGE(nsp, D)))
        st = [z3.If(z3.And(is_shift, spk + 1 == j), aarg, z3.If(z3.And(is_red, base + 1 == j), gk, stk[j])) for j in range(D)]
        lb = [z3.If(z3.And(is_shift, spk + 1 == j), z3.BitVecVal(15, 4), z3.If(z3.And(is_red, base + 1 == j), lab, lbk[j])) for j in range(D)]
        sp = nsp
        pos = z3.If(is_shift, pk + 1, pk)
        bad = z3.Or(bad, z3.And(is_red, viol))
        accepted = z3.Or(accepted, is_acc)
        running = z3.And(rk, z3.Not(is_acc), z3.Not(is_err))
    return s, toks, ln, running, accepted, bad, overflow


def wellformed_formula(toks, n):
    ix = lambda names: [ALPHA.index(x) for x in names]
    isin = lambda t, names: z3.Or([t == i for i in ix(names)])
    CMP = ['LE', 'LESSTHAN', 'DOUBLEEQUAL', 'NOTEQUAL', 'GE', 'GT']
    X = z3.BoolVal(True)
    depth = z3.BitVecVal(0, 4)
    ok = z3.BoolVal(True)
    depths = []
    for i in range(n):
        t = toks[i]
        depths.append(depth)
        okX = z3.Or(isin(t, UNY), t == ALPHA.index('LPAREN'), isin(t, OPERANDS))
        okY = z3.Or(isin(t, BIN), z3.And(t == ALPHA.index('RPAREN'), z3.UGE(depth, 1)))
        ok = z3.And(ok, z3.If(X, okX, okY))
        nX = z3.If(X, z3.Not(isin(t, OPERANDS)), isin(t, BIN))
        depth = z3.If(z3.And(X, t == ALPHA.index('LPAREN')), depth + 1,
                      z3.If(z3.And(z3.Not(X), t == ALPHA.index('RPAREN')), depth - 1, depth))
        X = nX
    ok = z3.And(ok, z3.Not(X), depth == 0)
    na = z3.BoolVal(True)
    for i in range(n):
        for j in range(i + 1, n):
            same = z3.And(isin(toks[i], CMP), isin(toks[j], CMP), depths[i] == depths[j],
                          *[z3.UGE(depths[k], depths[i]) for k in range(i + 1, j)])
            sep = z3.Or([z3.And(isin(toks[k], ['AND', 'OR']), depths[k] == depths[i]) for k in range(i + 1, j)] or [z3.BoolVal(False)])
            na = z3.And(na, z3.Implies(same, sep))
    return z3.And(ok, na)


# ------------------------------------------------------------------------------------------------
# replay: real parser vs reference precedence-climbing parser

class RefParseError(Exception):
    pass


def ref_parse(tokens):
    """reference: or < and < comparison (non-associative) < additive < multiplicative < modulo;
    left associative; unary operators bind tightest; parentheses group.  Returns nested tuples."""
    pos = [0]

    def peek():
        return tokens[pos[0]] if pos[0] < len(tokens) else None

    def primary():
        t = peek()
        if t is None:
            raise RefParseError('eof')
        if t in OPERANDS:
            pos[0] += 1
            return ('atom', t)
        if t == 'LPAREN':
            pos[0] += 1
            e = level(1)
            if peek() != 'RPAREN':
                raise RefParseError('paren')
            pos[0] += 1
            return e
        if t in UNY:
            pos[0] += 1
            return ('un', t, primary())
        raise RefParseError('primary %s' % t)

    def level(l):
        if l > 6:
            return primary()
        left = level(l + 1)
        count = 0
        while peek() in BIN and REF[peek()] == l:
            op = peek()
            pos[0] += 1
            right = level(l + 1)
            left = ('bin', op, left, right)
            count += 1
            if l == 3 and peek() in BIN and REF[peek()] == 3:
                raise RefParseError('comparison operators do not associate')
        return left
    e = level(1)
    if pos[0] != len(tokens):
        raise RefParseError('trailing')
    return e


OPTEXT = {v: k for k, v in LEXEME.items() if k in BIN or k in UNY}


def real_tree(node):
    name = type(node).__name__
    if name == 'BinaryOperationNode':
        return ('bin', OPTEXT[node.operator.lower()], real_tree(node.left), real_tree(node.right))
    if name == 'UnaryOperationNode':
        return ('un', OPTEXT[node.operator.lower()] if node.operator.lower() not in ('+', '-') else {'+': 'PLUS', '-': 'MINUS'}[node.operator], real_tree(node.operand))
    if name == 'IntegerNode':
        return ('atom', 'NUMBER')
    if name == 'BooleanNode':
        return ('atom', 'TRUE')
    raise ValueError(name)


def replay(tokens):
    """returns (real outcome, reference outcome): 'reject' or the tree"""
    text = 'return ' + ' '.join(LEXEME[t] for t in tokens) + ';'
    try:
        root = oal.parse(text)
        stmt = root.block.statement_list.children[0]
        real = real_tree(stmt.expression)
    except oal.ParseException:
        real = 'reject'
    try:
        ref = ref_parse(tokens)
    except RefParseError:
        ref = 'reject'
    return text, real, ref


def viable2():
    out = []
    for a in ALPHA:
        for b in ALPHA:
            if a in OPERANDS and b in BIN:
                out.append((a, b))
            elif (a in UNY or a == 'LPAREN') and (b in OPERANDS or b in UNY or b == 'LPAREN'):
                out.append((a, b))
    return out


def main():
    t00 = time.time()
    queries, violations, inconclusive, errors, samples = [], [], [], [], []
    validated = 0
    t0 = time.time()
    s, toks, ln, running, accepted, bad, overflow = encode(N, TIMEOUT)
    wf = wellformed_formula(toks, N)
    # all terms must be bit-vectors / booleans (an Int inside a QF_BV solver silently gave a wrong sat)
    enc_s = time.time() - t0
    solver_s = 0.0

    def model_tokens(m):
        return [ALPHA[m.eval(x, model_completion=True).as_long()] for x in toks]

    for cube in CUBES:
        s.push()
        if cube and cube[0] == '!VIABLE2':
            # all strings whose first two tokens are NOT one of the viable prefixes (they die early)
            s.add(z3.Not(z3.Or([z3.And(toks[0] == ALPHA.index(a), toks[1] == ALPHA.index(b)) for a, b in viable2()])))
        else:
            for i, name in enumerate(cube):
                s.add(toks[i] == ALPHA.index(name))
        for qname, cs, expect in (('unwind', [z3.Or(running, overflow)], 'unsat'), ('witness', [accepted], 'sat?'),
                                  ('soundness', [accepted, bad], 'unsat'), ('complete', [wf, z3.Not(accepted)], 'unsat'),
                                  ('tight', [accepted, z3.Not(wf)], 'unsat')):
            s.push()
            s.add(*cs)
            t = time.time()
            r = str(s.check())
            dt = time.time() - t
            solver_s += dt
            rec = {'name': '%s N=%d cube=%s' % (qname, N, ','.join(cube) or '-'), 'result': r, 'solver_s': round(dt, 2), 'expect': expect}
            if r == 'sat':
                m = s.model()
                tk = model_tokens(m)
                ok = all(z3.is_true(m.eval(c, model_completion=True)) for c in cs)
                rec['model_validated'] = ok
                text, real, ref = replay(tk)
                rec['witness'] = text
                if not ok:
                    inconclusive.append('%s: model does not satisfy the assertions' % rec['name'])
                elif qname == 'witness':
                    # translator validation: the real parser accepts the string and groups it as the reference does
                    validated += 1
                    if real == 'reject' or ref == 'reject' or real != ref:
                        if real != 'reject' and ref != 'reject' and real != ref:
                            violations.append({'what': 'parse of %r groups as %r, precedence table requires %r' % (text, real, ref), 'text': text})
                        elif real == 'reject':
                            errors.append('witness %r accepted by the model but rejected by the real parser (encoding error)' % text)
                        else:
                            violations.append({'what': '%r is accepted but is not a well-formed expression by the reference' % text, 'text': text})
                    elif len(samples) < 8:
                        samples.append({'witness': text, 'tree': repr(real)})
                elif qname == 'unwind':
                    errors.append('unwinding assertion failed for %s: bound T too small (%s)' % (rec['name'], text))
                else:
                    # soundness / complete / tight: only a reproduced disagreement is a violation
                    if real != ref:
                        violations.append({'what': '%s: %r parses to %r, reference: %r' % (qname, text, real, ref), 'text': text})
                    elif qname == 'tight':
                        errors.append('tightness: %r accepted, hand-written wellformed() disagrees but parser and reference agree (encoding finding)' % text)
                    else:
                        errors.append('%s: solver model %r does not reproduce (real == reference); encoding error' % (qname, text))
            elif r == 'unknown':
                inconclusive.append('%s: unknown (%s)' % (rec['name'], s.reason_unknown()))
            queries.append(rec)
            s.pop()
        s.pop()
    # the repository's own precedence samples + a few more, through both parsers
    extra = [['NUMBER', 'PLUS', 'NUMBER', 'TIMES', 'NUMBER'], ['NUMBER', 'MINUS', 'NUMBER', 'MINUS', 'NUMBER'],
             ['TRUE', 'OR', 'TRUE', 'AND', 'TRUE'], ['NUMBER', 'PIPE', 'NUMBER', 'AMP', 'NUMBER'],
             ['NOT', 'TRUE', 'AND', 'TRUE'], ['MINUS', 'NUMBER', 'MOD', 'NUMBER', 'TIMES', 'NUMBER'],
             ['LPAREN', 'NUMBER', 'PLUS', 'NUMBER', 'RPAREN', 'TIMES', 'NUMBER'], ['NUMBER', 'LESSTHAN', 'NUMBER', 'AND', 'NUMBER', 'GE', 'NUMBER'],
             ['NUMBER', 'LESSTHAN', 'NUMBER', 'LESSTHAN', 'NUMBER'], ['NUMBER', 'CARET', 'NUMBER', 'DIV', 'NUMBER', 'PIPE', 'NUMBER'],
             ['CARDINALITY', 'NUMBER', 'PLUS', 'NUMBER'], ['NUMBER', 'MOD', 'NUMBER', 'MOD', 'NUMBER']]
    if not CUBES[0]:
        for tk in extra:
            text, real, ref = replay(tk)
            validated += 1
            if real != ref:
                violations.append({'what': 'parse of %r: %r, precedence table requires %r' % (text, real, ref), 'text': text})
    verdict = 'confirmed'
    if violations:
        verdict = 'counterexample'
    elif errors or inconclusive:
        verdict = 'inconclusive'
    res = dict(verdict=verdict, queries=queries, violations=violations, inconclusive=inconclusive, errors=errors,
               samples=samples, solver_s=round(solver_s, 1), encode_s=round(enc_s, 1), wall_s=round(time.time() - t00, 1),
               states=len(reach), transitions=len(acts) + len(gotos), productions=len(usedprods),
               traces_validated=validated,
               functions_encoded=['bridgepoint/oal.py:OALParser grammar docstrings + precedence (tables regenerated by ply.yacc: %d states, %d action, %d goto entries, %d productions)'
                                  % (len(reach), len(acts), len(gotos), len(usedprods))])
    with open(os.environ['VERIF_RESULT'], 'w') as f:
        json.dump(res, f)
    print(json.dumps({k: res[k] for k in ('verdict', 'violations', 'inconclusive', 'errors', 'solver_s')})[:2000])


main()
