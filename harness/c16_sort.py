"""C16: sort_reflexive on every arrangement of n instances into chains (or one ring), both phrases.
The arrangement is a solver-chosen index into the table of all successor maps; links are made with
relate(); the real sort_reflexive runs traced.  Termination is observed with a fuel counter on
xtuml.meta.navigate_one (the function the sort calls once per step)."""
import itertools
import xtuml
import xtuml.meta
from hlib import POST, PARAMS, cs, case, notrace, stub_str

stub_str()
N = PARAMS.get('n', 4)
MODE = PARAMS.get('mode', 'chains')       # chains | ring | subset
KIND = PARAMS.get('kind', 'Node')            # key letters with lower-case letters: link keys are upper-cased internally
PRE = PARAMS.get('prehistory', False)       # build another arrangement first and tear it down again
SHARD = PARAMS.get('shard', 0)
NSHARDS = PARAMS.get('nshards', 1)
LAST_DIFF = None


def arrangements(n):
    seen = set()
    for perm in itertools.permutations(range(n)):
        for cuts in range(2 ** max(n - 1, 0)):
            succ = [-1] * n
            for k in range(n - 1):
                if not (cuts >> k) & 1:
                    succ[perm[k]] = perm[k + 1]
            seen.add(tuple(succ))
    return sorted(seen)


def rings(n):
    out = []
    if n == 0:
        return out
    for perm in itertools.permutations(range(1, n)):
        order = (0,) + perm
        succ = [-1] * n
        for k in range(n):
            succ[order[k]] = order[(k + 1) % n]
        out.append(tuple(succ))
    return out


def multi(n):
    """arbitrary partial injective successor maps (chains and several rings mixed)"""
    out = []
    for succ in itertools.product(range(-1, n), repeat=n):
        tg = [s for s in succ if s >= 0]
        if len(set(tg)) != len(tg):
            continue
        out.append(tuple(succ))
    return out


if MODE == 'chains':
    TABLE = [(a, 2 ** N - 1) for a in arrangements(N)]
elif MODE == 'ring':
    TABLE = [(a, 2 ** N - 1) for n in [N] for a in rings(n)]
else:
    TABLE = [(a, sub) for a in multi(N) for sub in range(1, 2 ** N)]
TABLE = TABLE[SHARD::NSHARDS]
NT = len(TABLE)


class Fuel(Exception):
    pass


def chains_of(succ, members):
    pred = {s: i for i, s in enumerate(succ) if s >= 0}
    out = []
    for h in range(len(succ)):
        if h in pred:
            continue
        c = [h]
        while succ[c[-1]] >= 0:
            c.append(succ[c[-1]])
        out.append(c)
    return out


def check(ai: int, fwd: bool) -> bool:
    """
    pre: 0 <= ai < NT
    post: POST(_)
    """
    global LAST_DIFF
    succ, sub = TABLE[cs(ai, 0, NT - 1)]
    fwd = True if fwd else False
    with notrace():
        m = xtuml.MetaModel(xtuml.IntegerGenerator())
        m.define_class(KIND, [('Id', 'unique_id'), ('Next_Id', 'unique_id'), ('Name', 'string')])
        ass = m.define_association(1, KIND, ['Next_Id'], False, True, 'precedes', KIND, ['Id'], False, True, 'succeeds')
        ass.formalize()
        insts = [m.new(KIND, Name='x%d' % k) for k in range(N)]
        if PRE:
            # history: one long chain in reverse creation order, then unrelated again
            for k in range(N - 1, 0, -1):
                xtuml.relate(insts[k], insts[k - 1], 1, 'precedes')
            for k in range(N - 1, 0, -1):
                xtuml.unrelate(insts[k], insts[k - 1], 1, 'precedes')
            # ... relates that were REJECTED (second partner for a single-valued end) and must have left nothing behind
            if N >= 3:
                xtuml.relate(insts[0], insts[1], 1, 'precedes')
                for x_, y_, ph_ in ((insts[2], insts[1], 'precedes'), (insts[1], insts[2], 'succeeds'), (insts[0], insts[2], 'precedes')):
                    try:
                        xtuml.relate(x_, y_, 1, ph_)
                    except xtuml.RelateException:
                        pass
                xtuml.unrelate(insts[0], insts[1], 1, 'precedes')
            # ... and members that were linked on BOTH sides to an instance that has been deleted since
            for k in range(0, N - 1, 2):
                x = m.new(KIND, Name='gone%d' % k)
                xtuml.relate(insts[k], x, 1, 'precedes')
                xtuml.relate(x, insts[k + 1], 1, 'precedes')
                xtuml.delete(x)
        for i, s in enumerate(succ):
            if s >= 0:
                # navigating from i across 'precedes' reaches its successor
                xtuml.relate(insts[i], insts[s], 1, 'precedes')
        qs = m.select_many(KIND, lambda sel: (sub >> insts.index(sel)) & 1)
        if PRE and len(qs) >= 2:
            # the set itself has a history: built with a foreign last member, which is removed before the real last member is added
            members = list(qs)
            extra = m.new(KIND, Name='foreign')
            qs = xtuml.QuerySet(members[:-1] + [extra])
            qs.remove(extra)
            qs.add(members[-1])
        rot = PARAMS.get('rotate', 0)
        if rot:
            members = list(qs)
            qs = xtuml.QuerySet(members[rot % len(members):] + members[:rot % len(members)]) if members else qs
    fuel = [0]
    orig = xtuml.meta.navigate_one

    def counting(x):
        fuel[0] += 1
        if fuel[0] > 6 * N + 10:
            raise Fuel()
        return orig(x)
    xtuml.meta.navigate_one = counting
    # second fuel counter on the membership test of the set being sorted (a loop that never navigates still
    # asks `inst in set`), and a wall-clock watchdog as a last resort
    orig_contains = xtuml.QuerySet.__contains__

    def counting_contains(self_, key):
        fuel[0] += 1
        if fuel[0] > 12 * N + 40:
            raise Fuel()
        return orig_contains(self_, key)
    xtuml.QuerySet.__contains__ = counting_contains
    import signal

    def on_alarm(signum, frame):
        raise Fuel()
    old_handler = signal.signal(signal.SIGALRM, on_alarm)
    signal.setitimer(signal.ITIMER_REAL, 20.0)
    try:
        # across 'succeeds': start with the member nobody precedes, continue along 'precedes'
        with notrace():
            qs_before = list(qs)
        res = xtuml.sort_reflexive(qs, 1, 'succeeds' if fwd else 'precedes')
        got = [insts.index(x) for x in res]
        ok_type = isinstance(res, xtuml.QuerySet)
        # sorting is a query: the set handed in still holds its members in their order, and sorting that very set
        # object a second time gives the same answer
        qs_after = list(qs)
        fuel[0] = 0
        res2 = xtuml.sort_reflexive(qs, 1, 'succeeds' if fwd else 'precedes')
        got2 = [insts.index(x) for x in res2]
    except Fuel:
        case(MODE, N, succ, sub, fwd, 'fuel')
        LAST_DIFF = ('does not terminate', succ, sub, fwd)
        return False
    finally:
        signal.setitimer(signal.ITIMER_REAL, 0)
        signal.signal(signal.SIGALRM, old_handler)
        xtuml.QuerySet.__contains__ = orig_contains
        xtuml.meta.navigate_one = orig
    case(MODE, N, list(succ), sub, fwd)
    if not ok_type:
        LAST_DIFF = ('result type',); return False
    if len(qs_after) != len(qs_before) or any(x is not y for x, y in zip(qs_after, qs_before)):
        LAST_DIFF = ('sorting changed the set that was handed in', len(qs_before), len(qs_after)); return False
    if got2 != got:
        LAST_DIFF = ('sorting the same set object a second time gives another answer', got, got2); return False
    members = [k for k in range(N) if (sub >> k) & 1]
    if MODE == 'subset':
        # termination + no foreign / repeated members
        if len(set(got)) != len(got) or any(g not in members for g in got):
            LAST_DIFF = ('subset result', got, succ, sub); return False
        return True
    if MODE == 'ring':
        exp = [insts.index(qs.first)]        # once around, starting at the SET's first member
        while len(exp) < N:
            exp.append(succ[exp[-1]] if fwd else list(succ).index(exp[-1]))
        if got != exp:
            LAST_DIFF = ('ring', got, exp); return False
        return True
    chains = chains_of(succ, members)
    if not fwd:
        chains = [c[::-1] for c in chains]
    if sorted(got) != list(range(N)):
        LAST_DIFF = ('not every member exactly once', got, succ); return False
    pos = 0
    heads = {c[0]: c for c in chains}
    while pos < len(got):
        c = heads.get(got[pos])
        if c is None or got[pos:pos + len(c)] != c:
            LAST_DIFF = ('chain not contiguous/in order', got, chains); return False
        pos += len(c)
    return True


def check_empty(fwd: bool) -> bool:
    """
    post: POST(_)
    """
    with notrace():
        m = xtuml.MetaModel(xtuml.IntegerGenerator())
        m.define_class(KIND, [('Id', 'unique_id'), ('Next_Id', 'unique_id')])
        ass = m.define_association(1, KIND, ['Next_Id'], False, True, 'precedes', KIND, ['Id'], False, True, 'succeeds')
        ass.formalize()
    res = xtuml.sort_reflexive(m.select_many(KIND), 1, 'succeeds' if fwd else 'precedes')
    case('empty', True if fwd else False)
    return isinstance(res, xtuml.QuerySet) and len(res) == 0
