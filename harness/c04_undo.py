"""C04 (metamorphic, reflexive association class): `unrelate ... using` exactly undoes `relate ... using`.

The interpreter harness' own schema has no REFLEXIVE association class; the BridgePoint fixture
fixtures/interp_model.xtuml has one (R1: Class 'one' -- Assoc -- Class 'other').  The function body is
built from a solver-chosen script (which pairs are related with which phrase and operand order, which
of them are unrelated again), executed by the real interpreter, and returns the cardinalities of ALL
navigations (from every Class instance to Assoc and to Class in both phrases, from every Assoc
instance to Class in both phrases) packed into one integer.  Oracle without any model of what the
phrases mean: the packed observation after `relate S; relate T; unrelate T` equals the observation
after `relate S` alone, for every S, T (T may be empty or equal to everything related)."""
import os
import bridgepoint
from bridgepoint import ooaofooa, oal, interpret
from hlib import POST, PARAMS, cs, case, notrace, stub_str

stub_str()
LAST_DIFF = None
FIXTURE = os.path.join(os.environ.get('VERIF_ROOT', '/verif'), 'fixtures', 'interp_model.xtuml')
_orig_parse = oal.parse


def _parse_untraced(text, label='<string>'):
    with notrace():
        return _orig_parse(text, label)


oal.parse = _parse_untraced
interpret.oal.parse = _parse_untraced
BP = None
PHRASES = ['one', 'other']
# a link = (from index, to index, phrase index) over three Class instances c0 c1 c2; link k uses Assoc instance a<k>
LINKS = [(0, 1, 0), (1, 2, 0), (0, 1, 1), (2, 0, 1), (1, 0, 0)]
NL = len(LINKS)


def observe_text():
    """OAL that packs the cardinality of every navigation into r (base 4)"""
    out = ['r = 0;']
    for c in range(3):
        for ph in PHRASES:
            out.append("select many xs related by c%d->Assoc[R1.'%s']; r = r * 4 + cardinality xs;" % (c, ph))
            out.append("select many ys related by c%d->Class[R1.'%s']; r = r * 4 + cardinality ys;" % (c, ph))
    for a in range(2):
        for ph in PHRASES:
            out.append("select many zs related by a%d->Class[R1.'%s']; r = r * 4 + cardinality zs;" % (a, ph))
    return '\n'.join(out)


def program(first, second, undo):
    lines = ['create object instance c0 of Class;', 'create object instance c1 of Class;', 'create object instance c2 of Class;',
             'create object instance a0 of Assoc;', 'create object instance a1 of Assoc;']
    f, t, p = LINKS[first]
    lines.append("relate c%d to c%d across R1.'%s' using a0;" % (f, t, PHRASES[p]))
    if second is not None:
        f2, t2, p2 = LINKS[second]
        lines.append("relate c%d to c%d across R1.'%s' using a1;" % (f2, t2, PHRASES[p2]))
        if undo:
            lines.append("unrelate c%d from c%d across R1.'%s' using a1;" % (f2, t2, PHRASES[p2]))
    lines.append(observe_text())
    lines.append('return r;')
    return '\n'.join(lines)


def run(text):
    global BP
    with notrace():
        if BP is None:
            BP = bridgepoint.load_metamodel(FIXTURE)
        BP.select_one('S_SYNC', lambda s: s.Name == 'Function').Action_Semantics_internal = text
        dom = ooaofooa.mk_component(BP)
    return dom.find_symbol('Function')(P1=0, P2=0)


def check(first: int, second: int) -> bool:
    """
    pre: 0 <= first < NL and 0 <= second < NL
    post: POST(_)
    """
    global LAST_DIFF
    first = cs(first, 0, NL - 1); second = cs(second, 0, NL - 1)
    base = run(program(first, None, False))
    both = run(program(first, second, False))
    undone = run(program(first, second, True))
    case('undo', first, second)
    if base is None or both is None or undone is None:
        LAST_DIFF = ('the script did not return', LINKS[first], LINKS[second]); return False
    if both == base:
        # the second relate was rejected (the association is one-to-one): then the unrelate is rejected too and nothing may change
        if undone != base:
            LAST_DIFF = ('a rejected relate / unrelate pair changed the navigations', LINKS[first], LINKS[second], base, undone); return False
        return None
    if undone != base:
        LAST_DIFF = ('unrelate .. using does not undo relate .. using on the reflexive association class: navigations after '
                     'relate S; relate T; unrelate T differ from those after relate S', LINKS[first], LINKS[second], base, undone)
        return False
    return True
