from engine_api import Cond

PROPERTY = 'C06'
LEVEL = 'exploration'
EXPLANATION = ('bounded exploration: the solver enumerates (program, action home) indices of a fixed corpus; prebuild_action runs on the real '
               'fixture model under CrossHair; the instances it created are checked by an independent oracle')
ASSUMPTIONS = [
    'same corpus and fixture as C05',
    'checked on the instances prebuild created: no new multiplicity / uniqueness violation in the whole model (xtuml.check_* whose exact counting is the subject of C11); exactly one R603 subtype per statement and one R801 subtype per value; per block the R661 chain equals source order with none at the ends and Previous_Statement_ID persisted accordingly; R816 parameter chains and Next_Value_ID in source order; R604 / Next_Link_ID; statements start at the first column of their source text (elif / else clauses: not checked); every variable in a block; typing of literals, comparison / boolean / unary operators, attribute reads, instance (set) references',
    'not checked: line/column of values, that a variable belongs to the block that first declares it, types of transients and parameters',
]


def conditions(tier, seed):
    t = 900 if tier == 'quick' else 3000
    out = []
    ns = 8
    for sh in range(ns):
        out.append(Cond('wellformed_core_s%d' % sh, 'c05_rt.py', dict(which='c06', corpus='core', shard=sh, nshards=ns), func='check_wellformed',
                        timeout=t, bound='core corpus x action homes (shard %d/%d)' % (sh, ns),
                        case_split=['ci (program, home)'], realised=['program text'], twin=(sh == 0)))
    for sh in range(4):
        out.append(Cond('wellformed_core_upper_s%d' % sh, 'c05_rt.py', dict(which='c06', corpus='core', style='upper', shard=sh, nshards=4), func='check_wellformed',
                        timeout=t, bound='core corpus with UPPER-case keywords x action homes (shard %d/4): typing and structure do not depend on keyword case' % sh,
                        case_split=['ci (program, home)'], realised=['program text'], twin=False))
    for sh in range(4):
        out.append(Cond('wellformed_real_s%d' % sh, 'c05_rt.py', dict(which='c06', corpus='real', shard=sh, nshards=4), func='check_wellformed',
                        timeout=t, bound='the 26 real bodies of the fixture model (shard %d/4)' % sh,
                        case_split=['ci'], realised=['program text'], twin=(sh == 0)))
    out.append(Cond('lexer_line_bookkeeping', 'c06_lines.py', {}, kind='script', timeout=900,
                    bound='every t_* rule of the OAL lexer: can its language contain a newline (z3, strings <= 12) and does the rule count it',
                    symbolic=['token text (z3 sequence theory)']))
    # second, synthesised model (classes A/B/C/L, R1 simple, R2 reflexive, R3 linked, function F) with the interpreter's skeletons
    # and a seeded generated program family; the population oracle of C06 runs on the instances prebuild created
    q = tier == 'quick'
    for sh in range(2):
        out.append(Cond('synth_core_s%d' % sh, 'c05_gen.py', dict(family='core', shard=sh, nshards=2), func='check', timeout=t,
                        bound='36 statement skeletons as the body of a function of a synthesised BridgePoint model (shard %d/2)' % sh,
                        case_split=['program'], realised=['program text'], twin=(sh == 0)))
    nsh = 2 if q else 16
    for sh in range(nsh):
        out.append(Cond('synth_gen_s%d' % sh, 'c05_gen.py', dict(family='gen', seed=seed + 1000, count=24 if q else 480, shard=sh, nshards=nsh), func='check', timeout=t,
                        bound='%d generated programs (seed %d, nesting depth <= 3 per construct) on the synthesised model (shard %d/%d)' % (24 if q else 480, seed + 1000, sh, nsh),
                        case_split=['program'], realised=['program text'], twin=False))
    return out
