"""C01 (structural round trip): serialize / persist a metamodel through every route, load it back,
compare signatures; serialise the reloaded model again and check the fixed point.
Values are case-split from pools and realised (they pass through the SQL lexer)."""
import itertools
import os
import shutil
import tempfile
import xtuml
from hlib import POST, PARAMS, cs, case, known, notrace, stub_str
from modelsig import sig, schema_sig, instance_rows, norm

LAST_DIFF = None
FAMILY = PARAMS.get('family', 'types')
DIM = PARAMS.get('dim', 's')
ROUTE = PARAMS.get('route', 'db')
SHARD, NSHARDS = PARAMS.get('shard', 0), PARAMS.get('nshards', 1)

ALPHA = ['a', "'", '-', '\n', '\r', '\x00', 'é', '"', ' ']
STRINGS = [''] + ALPHA + [x + y for x in ALPHA for y in ALPHA] + \
    ["--'", "a''b", "'); DROP", "/* c */", "it's -- not a comment\n", '中文', "'''", "\\'", "\\"]
INTS = [0, 1, -1, 2 ** 64 + 1, -2 ** 70, 10 ** 30, 7]
REALS = [0.0, -1.5, 1e10, 0.1234564, 123456789.125, -0.0000004, 2.5e15, 1.0 / 3, 1e16, 5e-05, 1.5e300, -2.5e22]
BOOLS = [False, True]
IDS = [0, 1, 2, 2 ** 128 - 1, 2 ** 64, 0x12345678123456781234567812345678]
POOLS = {'s': STRINGS, 'i': INTS, 'r': REALS, 'b': BOOLS, 'u': IDS, 'unset': list(range(32))}
KEYSTR = ['k', "k'", 'k--', '']
KEYWORDS = ['Table', 'values', 'FROM', 'True', 'M', 'MC', 'Index', 'create', 'INSERT', 'into', 'rop', 'Ref_Id',
            'to', 'PHRASE', 'Unique', 'on', 'false', 'String', 'integer', 'R', 'R_1', '_x', 'C1']


def build_types(vi):
    m = xtuml.MetaModel(xtuml.IntegerGenerator())
    m.define_class('T', [('b', 'boolean'), ('i', 'INTEGER'), ('r', 'real'), ('s', 'string'), ('u', 'unique_id')])
    m.define_unique_identifier('T', 1, 'u')
    m.define_unique_identifier('T', 'I2', 'i', 's')
    vals = dict(b=True, i=5, r=2.5, s='x', u=9)
    if DIM == 'unset':
        for n, a in enumerate(['b', 'i', 'r', 's', 'u']):
            if (vi >> n) & 1:
                vals[a] = None
    else:
        vals[DIM] = POOLS[DIM][vi]
    m.new('T', **vals)
    m.new('T', b=False, i=-3, r=0.5, s="second 'row'", u=10)
    return m


LINK_SHAPES = ['one_many', 'one_one', 'refl', 'assoc', 'composite', 'subtype', 'two_ids', 'one_phrase', 'null_ids', 'combined', 'refl_assoc', 'no_attrs']


def link_space(shape):
    if shape in ('one_many',):
        return list(itertools.product(range(-1, 2), repeat=3))            # 3 B's -> none|a0|a1
    if shape == 'one_one':
        return [c for c in itertools.product(range(-1, 2), repeat=2) if c[0] < 0 or c[0] != c[1]]
    if shape == 'refl':
        return [c for c in itertools.product(range(-1, 3), repeat=3)
                if len([x for x in c if x >= 0]) == len(set(x for x in c if x >= 0))]
    if shape == 'assoc':
        opts = [None] + [(a, d) for a in range(2) for d in range(2)]
        return list(itertools.product(opts, repeat=2))
    if shape == 'composite':
        return list(itertools.product(range(-1, 2), repeat=2))
    if shape == 'subtype':
        return [(x, y) for x in range(-1, 2) for y in range(-1, 2) if x < 0 or x != y]
    if shape == 'two_ids':
        return list(itertools.product(range(-1, 2), repeat=2))        # B -> a? via Id, C -> a? via Code
    if shape == 'null_ids':
        return list(itertools.product(range(-1, 1), repeat=4))        # B0 B1 -> none | the non-null A;  T0 T1 -> none | the non-empty S
    if shape == 'one_phrase':
        return [c for c in itertools.product(range(-1, 3), repeat=3)
                if len([x for x in c if x >= 0]) == len(set(x for x in c if x >= 0))]
    if shape == 'combined':
        return list(itertools.product(range(3), repeat=2))            # each C: unrelated | related across R1 only | across R2 only
    if shape == 'refl_assoc':
        opts = [None] + [(a, b) for a in range(2) for b in range(2)]
        return [c for c in itertools.product(opts, repeat=2)
                if c[0] is None or c[1] is None or (c[0][0] != c[1][0] and c[0][1] != c[1][1])]
    if shape == 'no_attrs':
        return [0, 1, 2]                                              # number of instances of the attribute-less class


def build_links(shape, st):
    m = xtuml.MetaModel(xtuml.IntegerGenerator())
    if shape == 'one_many':
        m.define_class('A', [('Id', 'unique_id'), ('Name', 'string')])
        m.define_class('B', [('Id', 'unique_id'), ('A_Id', 'unique_id')])
        m.define_association(1, 'B', ['A_Id'], True, True, '', 'A', ['Id'], False, False, '').formalize()
        m.define_unique_identifier('A', 1, 'Id')
        A = [m.new('A', Name="n'%d" % k) for k in range(2)]
        B = [m.new('B') for _ in range(3)]
        for b, a in zip(B, st):
            if a >= 0: xtuml.relate(b, A[a], 1)
    elif shape == 'one_one':
        m.define_class('A', [('Id', 'unique_id')])
        m.define_class('B', [('Id', 'unique_id'), ('A_Id', 'unique_id')])
        m.define_association(1, 'B', ['A_Id'], False, True, 'is owned by', 'A', ['Id'], False, True, "owns").formalize()
        A = [m.new('A') for _ in range(2)]
        B = [m.new('B') for _ in range(2)]
        for b, a in zip(B, st):
            if a >= 0: xtuml.relate(b, A[a], 1, 'is owned by')
    elif shape == 'refl':
        m.define_class('C', [('Id', 'unique_id'), ('Prev_Id', 'unique_id')])
        m.define_association(2, 'C', ['Prev_Id'], False, True, 'precedes', 'C', ['Id'], False, True, 'succeeds').formalize()
        C = [m.new('C') for _ in range(3)]
        for c, s in zip(C, st):
            if s >= 0: xtuml.relate(c, C[s], 2, 'precedes')
    elif shape == 'assoc':
        m.define_class('A', [('Id', 'unique_id')]); m.define_class('D', [('Id', 'unique_id')])
        m.define_class('L', [('A_Id', 'unique_id'), ('D_Id', 'unique_id'), ('w', 'integer')])
        m.define_association(3, 'L', ['A_Id'], True, True, '', 'A', ['Id'], False, False, '').formalize()
        m.define_association(3, 'L', ['D_Id'], True, True, '', 'D', ['Id'], False, False, '').formalize()
        m.define_unique_identifier('L', 1, 'A_Id', 'D_Id')
        A = [m.new('A') for _ in range(2)]; D = [m.new('D') for _ in range(2)]
        for n, ad in enumerate(st):
            l = m.new('L', w=n)
            if ad is not None:
                xtuml.relate(l, A[ad[0]], 3); xtuml.relate(l, D[ad[1]], 3)
    elif shape == 'composite':
        m.define_class('A', [('Name', 'string'), ('N', 'integer'), ('x', 'real')])
        m.define_class('B', [('Id', 'unique_id'), ('A_Name', 'string'), ('A_N', 'integer')])
        m.define_association(4, 'B', ['A_Name', 'A_N'], True, True, '', 'A', ['Name', 'N'], False, True, '').formalize()
        m.define_unique_identifier('A', 1, 'Name', 'N')
        A = [m.new('A', Name="k'", N=1, x=0.5), m.new('A', Name='k--', N=0, x=1.5)]
        B = [m.new('B') for _ in range(2)]
        for b, a in zip(B, st):
            if a >= 0: xtuml.relate(b, A[a], 4)
    elif shape == 'two_ids':
        # two associations into the same class through different identifiers, referential attributes named alike
        m.define_class('A', [('Id', 'unique_id'), ('Code', 'unique_id')])
        m.define_class('B', [('Ref', 'unique_id')]); m.define_class('C', [('Ref', 'unique_id')])
        m.define_association(8, 'B', ['Ref'], True, True, '', 'A', ['Id'], False, True, '').formalize()
        m.define_association(9, 'C', ['Ref'], True, True, '', 'A', ['Code'], False, True, '').formalize()
        A = [m.new('A', Id=1, Code=2), m.new('A', Id=2, Code=1)]
        b = m.new('B'); c = m.new('C')
        if st[0] >= 0: xtuml.relate(b, A[st[0]], 8)
        if st[1] >= 0: xtuml.relate(c, A[st[1]], 9)
    elif shape == 'one_phrase':
        # reflexive association with a phrase on one end only
        m.define_class('N', [('Id', 'unique_id'), ('Next_Id', 'unique_id')])
        m.define_association(6, 'N', ['Next_Id'], False, True, '', 'N', ['Id'], False, True, 'succeeds').formalize()
        N = [m.new('N') for _ in range(3)]
        for n, sidx in zip(N, st):
            if sidx >= 0: xtuml.relate(n, N[sidx], 6, '')
    elif shape == 'null_ids':
        # referred classes that also hold an instance whose identifier IS the null value (id 0, empty string): an unrelated
        # referring instance (its referential attribute is written as that same null value) must stay unrelated
        m.define_class('A', [('Id', 'unique_id'), ('Tag', 'integer')])
        m.define_class('B', [('Id', 'unique_id'), ('A_Id', 'unique_id')])
        m.define_class('S', [('Name', 'string'), ('Tag', 'integer')])
        m.define_class('T', [('Id', 'unique_id'), ('S_Name', 'string')])
        m.define_association(1, 'B', ['A_Id'], True, True, '', 'A', ['Id'], False, True, '').formalize()
        m.define_association(2, 'T', ['S_Name'], True, True, '', 'S', ['Name'], False, True, '').formalize()
        A = [m.new('A', Id=7, Tag=1), m.new('A', Id=0, Tag=2)]
        S = [m.new('S', Name='s', Tag=1), m.new('S', Name='', Tag=2)]
        B = [m.new('B') for _ in range(2)]
        T = [m.new('T') for _ in range(2)]
        for b, a in zip(B, st[:2]):
            if a >= 0: xtuml.relate(b, A[0], 1)
        for t_, s_ in zip(T, st[2:]):
            if s_ >= 0: xtuml.relate(t_, S[0], 2)
    elif shape == 'combined':
        # ONE attribute formalising TWO associations (combined referential): an instance may be related across either one alone
        m.define_class('A', [('Id', 'unique_id')]); m.define_class('B', [('Id', 'unique_id')])
        m.define_class('C', [('Id', 'unique_id'), ('Owner_Id', 'unique_id')])
        m.define_association(1, 'C', ['Owner_Id'], True, True, '', 'A', ['Id'], False, True, '').formalize()
        m.define_association(2, 'C', ['Owner_Id'], True, True, '', 'B', ['Id'], False, True, '').formalize()
        a = m.new('A', Id=101); b = m.new('B', Id=202)
        for k, how in enumerate(st):
            c = m.new('C', Id=k + 1)
            if how == 1: xtuml.relate(c, a, 1)
            if how == 2: xtuml.relate(c, b, 2)
    elif shape == 'refl_assoc':
        # reflexive association class: both halves share number, referring and referred class and differ in their phrases only
        m.define_class('P', [('Id', 'unique_id')])
        m.define_class('M', [('Husband_Id', 'unique_id'), ('Wife_Id', 'unique_id'), ('w', 'integer')])
        m.define_association(4, 'M', ['Husband_Id'], False, True, 'is wife of', 'P', ['Id'], False, False, 'is husband of').formalize()
        m.define_association(4, 'M', ['Wife_Id'], False, True, 'is husband of', 'P', ['Id'], False, False, 'is wife of').formalize()
        P = [m.new('P') for _ in range(2)]
        for n, hw in enumerate(st):
            l = m.new('M', w=n)
            if hw is not None:
                xtuml.relate(l, P[hw[0]], 4, 'is husband of'); xtuml.relate(l, P[hw[1]], 4, 'is wife of')
    elif shape == 'no_attrs':
        # a class without attributes (e.g. one whose only attributes are derived) next to an ordinary one
        m.define_class('E', []); m.define_class('A', [('Id', 'unique_id')])
        m.new('A')
        for _ in range(st):
            m.new('E')
    elif shape == 'subtype':
        m.define_class('P', [('Id', 'unique_id')]); m.define_class('X', [('Id', 'unique_id'), ('v', 'integer')])
        m.define_class('Y', [('Id', 'unique_id')])
        m.define_association(5, 'X', ['Id'], False, True, '', 'P', ['Id'], False, False, '').formalize()
        m.define_association(5, 'Y', ['Id'], False, True, '', 'P', ['Id'], False, False, '').formalize()
        P = [m.new('P') for _ in range(2)]
        x = m.new('X', v=3); y = m.new('Y')
        if st[0] >= 0: xtuml.relate(x, P[st[0]], 5)
        if st[1] >= 0: xtuml.relate(y, P[st[1]], 5)
    return m


def build_keywords(vi):
    kw = KEYWORDS[vi]
    other = KEYWORDS[(vi + 7) % len(KEYWORDS)]
    m = xtuml.MetaModel(xtuml.IntegerGenerator())
    m.define_class(kw, [(other, 'unique_id'), (kw, 'string')])
    m.define_class(other, [('Id', 'unique_id'), (kw, 'unique_id')])
    m.define_association(7, other, [kw], True, True, '', kw, [other], False, True, '').formalize()
    m.define_unique_identifier(kw, other, other)
    a = m.new(kw, **{kw: 'v'})
    b = m.new(other)
    xtuml.relate(b, a, 7)
    return m


if FAMILY == 'types':
    SPACE = list(range(len(POOLS[DIM])))
elif FAMILY == 'links':
    SPACE = link_space(DIM)
else:
    SPACE = list(range(len(KEYWORDS)))
SPACE = SPACE[SHARD::NSHARDS]
NSP = len(SPACE)


_CNT = [0]


def roundtrip(m):
    """serialise through ROUTE and load back; returns (loaded metamodel, text or None)"""
    if ROUTE == 'db':
        text = xtuml.serialize_database(m)
        l = xtuml.ModelLoader(); l.input(text)
        return l.build_metamodel(), text
    if ROUTE == 'dispatch':
        text = xtuml.serialize(m)
        l = xtuml.ModelLoader(); l.input(text)
        return l.build_metamodel(), text
    if ROUTE == 'three':
        l = xtuml.ModelLoader()
        l.input(xtuml.serialize_instances(m)); l.input(xtuml.serialize_unique_identifiers(m)); l.input(xtuml.serialize_schema(m))
        return l.build_metamodel(), None
    if ROUTE == 'pieces':
        # serialize() dispatch on classes, associations and instances one by one
        text = ''.join(xtuml.serialize(mc.clazz) for mc in m.metaclasses.values())
        text += ''.join(xtuml.serialize(a) for a in m.associations)
        text += ''.join(xtuml.serialize(i) for i in m.instances)
        text += xtuml.serialize_unique_identifiers(m)
        l = xtuml.ModelLoader(); l.input(text)
        return l.build_metamodel(), None
    with notrace():
        _CNT[0] += 1
        d = os.path.join(tempfile.gettempdir(), 'c01_%d_%d' % (os.getpid(), _CNT[0]))
        os.makedirs(d)
    try:
        l = xtuml.ModelLoader()
        if ROUTE == 'persist_db':
            p = os.path.join(d, 'db.sql')
            xtuml.persist_database(m, p)
            l.filename_input(p)
        elif ROUTE == 'persist_three':
            ps = [os.path.join(d, n) for n in ('i.sql', 's.sql', 'u.sql')]
            xtuml.persist_instances(m, ps[0]); xtuml.persist_schema(m, ps[1]); xtuml.persist_unique_identifiers(m, ps[2])
            for p in ps:
                l.filename_input(p)
        return l.build_metamodel(), None
    finally:
        with notrace():
            shutil.rmtree(d, ignore_errors=True)


def check(vi: int) -> bool:
    """
    pre: 0 <= vi < NSP
    post: POST(_)
    """
    global LAST_DIFF
    sel = SPACE[cs(vi, 0, NSP - 1)]
    with notrace():
        if FAMILY == 'types':
            m = build_types(sel)
        elif FAMILY == 'links':
            m = build_links(DIM, sel)
        else:
            m = build_keywords(sel)
        before = sig(m)
    m1, _ = roundtrip(m)
    case(FAMILY, DIM, ROUTE, repr(sel) if not isinstance(sel, int) else sel)
    with notrace():
        after = sig(m1)
        if after != before:
            diff = {k: (before[k], after[k]) for k in before if before[k] != after[k]}
            val = POOLS[DIM][sel] if FAMILY == 'types' and DIM == 's' else None
            if val is not None and '\r' in val and ROUTE.startswith('persist') and known('C01/file-route-cr-to-lf'):
                return None
            LAST_DIFF = ('signature changed by %s round trip' % ROUTE, repr(sel), diff)
            return False
        # fixed point after one round: with m1 as the metamodel, ser(load(ser(m1))) is reproduced
        # by serialising and loading once more
        l = xtuml.ModelLoader(); l.input(xtuml.serialize(m1))
        t2 = xtuml.serialize(l.build_metamodel())
        l = xtuml.ModelLoader(); l.input(t2)
        t3 = xtuml.serialize(l.build_metamodel())
        if t2 != t3:
            LAST_DIFF = ('not a fixed point after one round', repr(sel), t2, t3); return False
    return True


def check_inferred(vi: int) -> bool:
    """
    pre: 0 <= vi < NSP
    post: POST(_)
    """
    # instances only (no CREATE TABLE): values and their guessed types survive
    global LAST_DIFF
    sel = SPACE[cs(vi, 0, NSP - 1)]
    with notrace():
        m = build_types(sel)
        rows = instance_rows(m)['T']
        text = xtuml.serialize_instances(m)
        l = xtuml.ModelLoader(); l.input(text)
    m1 = l.build_metamodel()
    case('inferred', DIM, sel)
    with notrace():
        got = [tuple(getattr(i, '_%d' % k) for k in range(5)) for i in m1.select_many('T')]
        tys = [t.upper() for _, t in m1.find_metaclass('T').attributes]
    if tys != ['INTEGER', 'INTEGER', 'REAL', 'STRING', 'UNIQUE_ID']:
        LAST_DIFF = ('guessed types', tys); return False
    if got != rows:
        LAST_DIFF = ('values', got, rows); return False
    return True
