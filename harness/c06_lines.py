"""C06 (E2 lemma on the OAL lexer's line bookkeeping): statements carry the line of their source
text only if every token that can contain a line break advances the line counter.
For every t_* rule of bridgepoint/oal.py (regex taken from the docstring of the CURRENT source) z3
decides whether the rule's language contains a string with a newline; the rule's body is inspected
(AST) for `lineno += ...count('\\n')` / `len(t.value)`.  A rule that can match a newline without
counting it is a candidate; it is replayed through the real parser with a program that puts such a
token before a later statement and compares that statement's recorded line with its real line."""
import ast
import json
import os
import sys
import time

import z3

SCRATCH = os.environ['VERIF_SCRATCH']
sys.path.insert(0, SCRATCH)
sys.path.insert(0, os.path.dirname(os.path.abspath(__file__)))
import c01_lex_re as RX  # noqa  (python regex -> z3 regex translator shared with C01)

queries, violations, inconclusive, errors, samples = [], [], [], [], []

TEMPLATES = {
    # rule name -> program with %s = a token of that rule containing a newline; the LAST statement is on line `line`
    'END_IF': ('if (true)\n  x = 1;\n%s;\ny = 2;\n', 'end\nif', 5),
    'END_FOR': ('select many cs from instances of K;\nfor each c in cs\n%s;\ny = 2;\n', 'end\nfor', 5),
    'END_WHILE': ('while (false)\n%s;\ny = 2;\n', 'end\nwhile', 4),
    'TICKED_PHRASE': ("select any a from instances of K;\nrelate a to a across R1.%s;\ny = 2;\n", "'two\nlines'", 4),
    'COMMENT': ('x = 1; %s\ny = 2;\n', '/* a\nb */', 3),
    'SL_STRING': ('x = 1; %sy = 2;\n', '// c\n', 2),
    'STRING': ('x = %s;\ny = 2;\n', '"a\nb"', 3),
    'newline': ('x = 1;%sy = 2;\n', '\n\n', 3),
}


def main():
    from bridgepoint import oal
    with open(os.path.join(SCRATCH, 'bridgepoint', 'oal.py')) as f:
        tree = ast.parse(f.read())
    cls = [n for n in tree.body if isinstance(n, ast.ClassDef) and n.name == 'OALParser'][0]
    s = z3.String('s')
    for fn in cls.body:
        if not (isinstance(fn, ast.FunctionDef) and fn.name.startswith('t_') and fn.name != 't_error'):
            continue
        doc = ast.get_docstring(fn, clean=False)
        if doc is None:
            continue
        name = fn.name[2:]
        try:
            L = RX.to_z3(doc)
        except Exception as e:  # noqa
            inconclusive.append('rule %s: regex %r not translatable (%s)' % (name, doc, e))
            continue
        sol = z3.Solver(); sol.set('timeout', 60000)
        sol.add(z3.InRe(s, L), z3.Contains(s, z3.StringVal('\n')), z3.Length(s) <= 12)
        t = time.time(); r = str(sol.check()); dt = time.time() - t
        body_src = ast.unparse(fn)
        counts = ('lineno +=' in body_src) and ("count('\\n')" in body_src or 'len(t.value)' in body_src)
        rec = {'name': 'rule %s can contain a newline' % name, 'result': r, 'solver_s': round(dt, 2), 'counts_lines': counts}
        if r == 'sat':
            rec['witness'] = repr(sol.model().eval(s).as_string())
        queries.append(rec)
        if r == 'unknown':
            inconclusive.append('rule %s: solver unknown' % name)
        if r == 'sat' and not counts:
            tpl = TEMPLATES.get(name)
            if tpl is None:
                inconclusive.append('rule %s can match a newline and does not count it; no replay template' % name)
                continue
            text = tpl[0] % tpl[1]
            try:
                root = oal.parse(text)
                last = root.block.statement_list.children[-1]
                got = last.position.start_line
            except Exception as e:  # noqa
                inconclusive.append('rule %s: replay program does not parse (%s)' % (name, e))
                continue
            if got != tpl[2]:
                violations.append({'what': 'token %s may span lines but does not advance the line counter: in %r the statement "y = 2" is on line %d, recorded line %d'
                                           % (name, text, tpl[2], got), 'rule': name, 'text': text})
            else:
                errors.append('rule %s flagged but the replay records the right line (encoding error)' % name)
        elif r == 'sat' and len(samples) < 4:
            samples.append({'rule': name, 'newline_witness': rec.get('witness'), 'counts_lines': True})
    verdict = 'confirmed'
    if violations:
        verdict = 'counterexample'
    elif errors or inconclusive:
        verdict = 'inconclusive'
    res = dict(verdict=verdict, queries=queries, violations=violations, inconclusive=inconclusive, errors=errors, samples=samples,
               functions_encoded=['bridgepoint/oal.py:OALParser.t_* (token regexes and line bookkeeping)'])
    with open(os.environ['VERIF_RESULT'], 'w') as f:
        json.dump(res, f)
    print(json.dumps({k: res[k] for k in ('verdict', 'violations', 'inconclusive', 'errors')}, indent=1)[:2500])


main()
