"""C03 (order / partition): the built metamodel does not depend on the order of the statements nor
on how they are split over input() calls, files, a directory tree or a zip archive.
The statement permutation and the partition are solver-chosen table indices; text is realised."""
import io
import itertools
import os
import shutil
import tempfile
import zipfile
import xtuml
import bridgepoint.ooaofooa
from hlib import POST, PARAMS, cs, case, notrace, stub_str
from modelsig import schema_sig, link_sig, norm

stub_str()
LAST_DIFF = None
ROUTE = PARAMS.get('route', 'input')       # input | files | dir | zip
MODEL = PARAMS.get('model', 'explicit')
PERMS_MODE = PARAMS.get('perms', 'all')

MODELS = {
    'explicit': [
        'CREATE TABLE A (Id UNIQUE_ID, Name STRING);\n',
        'CREATE TABLE B (Id UNIQUE_ID, A_Id UNIQUE_ID, Prev_Id UNIQUE_ID);\n',
        "CREATE ROP REF_ID R1 FROM MC B (A_Id) TO 1 A (Id);\n",
        "CREATE ROP REF_ID R2 FROM 1C B (Prev_Id) PHRASE 'precedes' TO 1C B (Id) PHRASE 'succeeds';\n",
        'CREATE UNIQUE INDEX I1 ON A (Id);\n',
        "INSERT INTO A VALUES (1, 'x');\n",
        'INSERT INTO B VALUES (7, 1, 0);\n',
        'INSERT INTO B VALUES (8, 1, 7);\n',
    ],
    'linked': [
        'CREATE TABLE A (Id UNIQUE_ID);\n', 'CREATE TABLE D (Id UNIQUE_ID);\n',
        'CREATE TABLE L (A_Id UNIQUE_ID, D_Id UNIQUE_ID);\n',
        'CREATE ROP REF_ID R3 FROM MC L (A_Id) TO 1 A (Id);\n',
        'CREATE ROP REF_ID R3 FROM MC L (D_Id) TO 1 D (Id);\n',
        'INSERT INTO L VALUES (1, 2);\n', 'INSERT INTO A VALUES (1);\n', 'INSERT INTO D VALUES (2);\n',
    ],
    'inferred': [
        "INSERT INTO A VALUES (1, 'x', 1.5, true);\n",
        "INSERT INTO A VALUES (2, 'y', 2.5, false);\n",
        'INSERT INTO B (Id, A_Id) VALUES (7, 1);\n',
        'INSERT INTO B (Id, A_Id) VALUES (8, 2);\n',
        'INSERT INTO B (Id, A_Id) VALUES (9, 2);\n',
    ],
}
STMTS = MODELS[MODEL]
N = len(STMTS)
if PERMS_MODE == 'all':
    PERMS = list(itertools.permutations(range(N)))
    PARTS = [(N, N), (N // 2, N), (2, N - 2), (1, 2), (0, 1)]
else:   # few permutations x every partition into up to three parts
    PERMS = [tuple(range(N)), tuple(reversed(range(N))), tuple(range(1, N)) + (0,), tuple(range(N // 2, N)) + tuple(range(N // 2))]
    PARTS = [(i, j) for i in range(N + 1) for j in range(i, N + 1)]
SHARD, NSHARDS = PARAMS.get('shard', 0), PARAMS.get('nshards', 1)
CASES = [(p, c) for p in range(len(PERMS)) for c in range(len(PARTS))][SHARD::NSHARDS]
NCASES = len(CASES)


def msig(m):
    """signature modulo instance order: instances keyed by their attribute tuple"""
    d = schema_sig(m)
    rows = {}
    key = {}
    for ukind, mc in m.metaclasses.items():
        rs = []
        for inst in m.select_many(mc.kind):
            t = tuple(norm(getattr(inst, n), ty) for n, ty in mc.attributes)
            key[id(inst)] = (ukind, t)
            rs.append(t)
        rows[ukind] = sorted(rs, key=repr)
    links = set()
    for ass in m.associations:
        sl, tl = ass.source_link, ass.target_link
        for s in m.select_many(sl.to_metaclass.kind):
            for t in xtuml.navigate_many(s).nav(tl.to_metaclass.kind, ass.rel_id, tl.phrase)():
                links.add((ass.rel_id, tl.phrase, key[id(s)], key[id(t)]))
        for t in m.select_many(tl.to_metaclass.kind):
            for s in xtuml.navigate_many(t).nav(sl.to_metaclass.kind, ass.rel_id, sl.phrase)():
                links.add((ass.rel_id, sl.phrase, key[id(t)], key[id(s)]))
    d['instances'] = rows
    d['links'] = links
    return d


def load_parts(parts):
    loader = xtuml.ModelLoader()
    if ROUTE == 'input':
        for p in parts:
            loader.input(p)
        return loader
    d = tempfile.mkdtemp(prefix='c03_')
    try:
        if ROUTE == 'files':
            for n, p in enumerate(parts):
                fn = os.path.join(d, 'p%d.sql' % n)
                with open(fn, 'w') as f:
                    f.write(p)
                loader.filename_input(fn)
        elif ROUTE == 'dir':
            for n, p in enumerate(parts):
                sub = os.path.join(d, *(['sub%d' % k for k in range(n)]))
                os.makedirs(sub, exist_ok=True)
                with open(os.path.join(sub, 'part%d.xtuml' % n), 'w') as f:
                    f.write(p)
            with open(os.path.join(d, 'ignored.txt'), 'w') as f:
                f.write('this is not a model file (')
            bridgepoint.ooaofooa.ModelLoader.filename_input(loader, d)
        elif ROUTE == 'zip':
            zn = os.path.join(d, 'm.zip')
            with zipfile.ZipFile(zn, 'w') as z:
                for n, p in enumerate(parts):
                    z.writestr('x/' * n + 'part%d.xtuml' % n, p)
                z.writestr('readme.txt', 'not a model (')
            bridgepoint.ooaofooa.ModelLoader.filename_input(loader, zn)
    finally:
        shutil.rmtree(d, ignore_errors=True)
    return loader


REF = None


def check(ci: int) -> bool:
    """
    pre: 0 <= ci < NCASES
    post: POST(_)
    """
    global LAST_DIFF, REF
    pi, ki = CASES[cs(ci, 0, NCASES - 1)]
    perm = PERMS[pi]
    i, j = PARTS[ki]
    order = [STMTS[k] for k in perm]
    parts = [''.join(order[:i]), ''.join(order[i:j]), ''.join(order[j:])]
    parts = [p for p in parts if p] or ['']
    with notrace():
        if REF is None:
            l0 = xtuml.ModelLoader()
            l0.input(''.join(STMTS))
            REF = msig(l0.build_metamodel())
        loader = load_parts(parts)
    m = loader.build_metamodel()
    case(ROUTE, MODEL, list(perm), (i, j))
    with notrace():
        got = msig(m)
    if got != REF:
        LAST_DIFF = ('metamodel depends on statement order / partition', perm, (i, j),
                     {k: (got[k], REF[k]) for k in got if got[k] != REF[k]})
        return False
    return True
