from engine_api import Cond

PROPERTY = 'C13'
LEVEL = 'other'
ASSUMPTIONS = [
    'PLY\'s scanner and LR driver are the trusted environment (they must run outside the tracer): a token rule is called with the matched text and its offset, '
    'a production with the symbols it covers; the driver loop itself terminates (one token consumed per shift)',
    'scanner_backtracking: strings of 1..6 characters per repetition; \\d / \\w / \\s modelled as their ASCII sets; look-ahead assertions dropped (over-approximation of the token text); a candidate counts only if the real parser does not scan the pumped text within 15 s',
    'unit level: text, offsets and line numbers symbolic (text <= 5/6 characters); no token handed to the parser ends in a line break',
]


def conditions(tier, seed):
    q = tier == 'quick'
    t = 300 if q else 1800
    out = []
    ml = 5 if q else 6
    out.append(Cond('unit_positional_info', 'c13_pos.py', dict(maxlen=ml), func='check_info', timeout=t,
                    bound='set_positional_info / track_production / find_column on a real YaccProduction of 1..3 symbols over an arbitrary text of <= %d characters' % ml,
                    symbolic=['text', 'offsets s_i e_i', 'line numbers'], case_split=['n', 'how']))
    out.append(Cond('unit_track_production', 'c13_pos.py', {}, func='check_track', timeout=t,
                    bound='decorator on productions returning a Node / string / None / list node, empty and non-empty right-hand side',
                    symbolic=['offsets'], case_split=['kind', 'n']))
    out.append(Cond('unit_p_error', 'c13_pos.py', {}, func='check_p_error', timeout=t,
                    bound='p_error on end of input and on an arbitrary token (type <= 3 chars, text <= 4 chars)',
                    symbolic=['token type', 'line', 'offset', 'text'], case_split=['kind']))
    out.append(Cond('unit_t_error', 'c13_pos.py', {}, func='check_t_error', timeout=t,
                    bound='t_error on 20 illegal characters (incl. form feed, NBSP, NEL, EM SPACE) x 5 rests of input (nothing, text, blanks) x line/offset pool', case_split=['character', 'rest', 'line', 'offset']))
    ns = 8
    for sh in range(ns):
        out.append(Cond('unit_token_rules_s%d' % sh, 'c13_pos.py', dict(maxlen=3 if q else 4, shard=sh, nshards=ns), func='check_token', timeout=t,
                        bound='every t_* rule function (shard %d/%d) on an arbitrary matched text of <= %d characters' % (sh, ns, 3 if q else 4),
                        symbolic=['matched text', 'offset', 'line'], case_split=['rule'], twin=(sh == 0)))
    out.append(Cond('unit_token_rule_ID', 'c13_pos.py', dict(maxlen=2 if q else 3, only_id=1), func='check_token', timeout=3 * t,
                    bound='t_ID (upper-cases its text and looks it up in the keyword table) on an arbitrary matched text of <= %d characters' % (2 if q else 3),
                    symbolic=['matched text', 'offset', 'line'], twin=False))
    ns = 16
    picks = range(ns) if not q else [(seed + k * 4) % ns for k in range(4)]
    for sh in picks:
        out.append(Cond('layout_s%d' % sh, 'c13_e2e.py', dict(shard=sh, nshards=ns, background=[0, 1] if q else [0, 1, 3, 6]), func='check_layout',
                        timeout=900 if q else 3000,
                        bound='programs %d mod %d of the corpus x every gap between two tokens x 10 layouts in that gap x %d background layouts; '
                              'first/last token, lines, columns and character_stream of every statement and expression node' % (sh, ns, 2 if q else 4),
                        case_split=['program', 'gap', 'layout', 'background layout'], realised=['program text'], twin=(sh == picks[0])))
    for sh in picks:
        out.append(Cond('total_s%d' % sh, 'c13_e2e.py', dict(shard=sh, nshards=ns), func='check_total', timeout=900 if q else 3000,
                        bound='programs %d mod %d of the corpus x every token x 19 single edits (delete, duplicate, swap, truncate, illegal characters incl. form feed / NBSP at the end of the text, unclosed string / phrase / comment): '
                              'returns a tree or raises ParseException within 20 s; positions of what parses are consistent with the edited text' % (sh, ns),
                        case_split=['program', 'token', 'edit'], realised=['program text'], twin=(sh == picks[0])))
    for sh in picks[:2] if q else picks:
        out.append(Cond('history_s%d' % sh, 'c13_e2e.py', dict(shard=sh, nshards=ns), func='check_history', timeout=900 if q else 3000,
                        bound='1..2 parses of a multi-line single-edit variant (programs %d mod %d x every token x 4 edits) followed by a valid multi-line program (rotating through the corpus): '
                              'positions are those of the last text alone' % (sh, ns),
                        case_split=['program', 'token', 'edit', 'repetitions'], realised=['program text'], twin=False))
    out.append(Cond('scanner_backtracking', 'c13_redos.py', dict(scanner='oal', property='C13'), kind='script', timeout=900,
                    bound='every unbounded repetition in every t_* regex of the OAL scanner: no string of 1..6 characters is matched by two alternatives of the repeated group or readable as one and as several iterations (z3 regex theory); candidates replayed on the real parser with the witness pumped 48 times'))
    return out
