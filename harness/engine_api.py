import os, sys
sys.path.insert(0, os.path.dirname(os.path.dirname(os.path.abspath(__file__))))
from engine.main import Cond  # noqa
