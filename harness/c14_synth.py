"""C14 (synthesised class diagrams): a BridgePoint class model is generated as ooaofooa rows from an
ABSTRACT class diagram (classes with typed attributes and identifiers; formalised simple, subtype /
supertype and linked (association class, also reflexive) associations with referential -> identifying
attribute pairs, multiplicity / conditionality and phrases), loaded,
and the extracted component is compared with the signature computed DIRECTLY from the diagram
(absolute oracle, independent of mk_class / mk_simple_association).  Diagram, multiplicities and row
order are case-split table indices; model text is realised."""
import itertools
import random
import uuid
import xtuml
from bridgepoint import ooaofooa
from hlib import POST, PARAMS, cs, case, notrace, stub_str

stub_str()
LAST_DIFF = None

# (classes, associations); attribute = (name, core type, identifier numbers it belongs to)
# association = (number, participant class, formaliser class, [(referential name, identifying attribute)])
DIAGRAMS = [
    dict(classes=[('Shelf', [('Row', 'integer', [0]), ('Col', 'integer', [0]), ('Note', 'string', [])]),
                  ('Book', [('Title', 'string', [0])])],
         assocs=[(1, 'Shelf', 'Book', [('Pos_X', 'Row'), ('Pos_Y', 'Col')])]),
    dict(classes=[('Shelf', [('Alpha', 'integer', [0]), ('Beta', 'string', [0])]),
                  ('Book', [('Title', 'string', [0]), ('Pages', 'integer', [1])])],
         assocs=[(7, 'Shelf', 'Book', [('Zeta', 'Alpha'), ('Eta', 'Beta')])]),
    dict(classes=[('Node', [('Id', 'unique_id', [0]), ('Weight', 'real', []), ('Flag', 'boolean', [])])],
         assocs=[(2, 'Node', 'Node', [('Next_Id', 'Id')])]),
    dict(classes=[('K', [('A', 'unique_id', [0]), ('B', 'string', [0]), ('C', 'integer', [0, 1])]),
                  ('U', [('Id', 'unique_id', [0])])],
         assocs=[(3, 'K', 'U', [('K_C', 'C'), ('K_A', 'A'), ('K_B', 'B')]), (4, 'U', 'K', [('U_Id', 'Id')])]),
    # a supertype with three subtypes whose referential attributes have DIFFERENT names, next to a simple association
    dict(classes=[('Sup', [('Id', 'unique_id', [0]), ('Name', 'string', [])]),
                  ('SA', [('A_No', 'integer', [0])]), ('SB', [('B_No', 'integer', [0])]), ('SC', [('C_No', 'integer', [0])]),
                  ('Own', [('Tag', 'string', [0])])],
         assocs=[(9, 'Sup', 'Own', [('Sup_Ref', 'Id')])],
         subsups=[(5, 'Sup', [('SA', [('Id', 'Id')]), ('SB', [('Sup_Id', 'Id')]), ('SC', [('Parent', 'Id')])])]),
    # an association class between two classes (compound key on one side) and a reflexive one with phrases
    dict(classes=[('P', [('X', 'integer', [0]), ('Y', 'string', [0])]), ('Q', [('Id', 'unique_id', [0])]),
                  ('PQ', [('Since', 'integer', [])]), ('QQ', [('W', 'real', [])])],
         assocs=[],
         linked=[(6, 'P', 'Q', 'PQ', [('P_X', 'X'), ('P_Y', 'Y')], [('Q_Id', 'Id')], 'holds', 'is held by'),
                 (8, 'Q', 'Q', 'QQ', [('Left_Id', 'Id')], [('Right_Id', 'Id')], 'is left of', 'is right of')]),
]
MC = list(itertools.product([0, 1], repeat=4))        # (part Mult, part Cond, form Mult, form Cond)
ORDERS = [None, 1, 2, 3]
CASES = [(d, m, o) for d in range(len(DIAGRAMS)) for m in range(len(MC)) for o in range(len(ORDERS))]
CASES = CASES[PARAMS.get('shard', 0)::PARAMS.get('nshards', 1)]
NCASES = len(CASES)
CORE = None


def guid(v):
    return '"%s"' % uuid.UUID(int=v)


class Rows(object):
    def __init__(self):
        self.rows = []
        self.count = 5000
        self.last_attr = {}

    def new_id(self):
        self.count += 1
        return guid(self.count)

    def insert(self, kind, **kw):
        self.rows.append('INSERT INTO %s (%s) VALUES (%s);' % (kind, ', '.join(kw), ', '.join(str(v) for v in kw.values())))

    def attr(self, obj_id, name, dt_id):
        attr_id = self.new_id()
        kw = dict(Attr_ID=attr_id, Obj_ID=obj_id, Name="'%s'" % name, DT_ID=dt_id)
        if obj_id in self.last_attr:
            kw['PAttr_ID'] = self.last_attr[obj_id]
        self.last_attr[obj_id] = attr_id
        self.insert('O_ATTR', **kw)
        return attr_id


def synthesise(diagram, mc, order):
    """ooaofooa rows for the diagram"""
    global CORE
    if CORE is None:
        g = ooaofooa.load_metamodel()
        CORE = {s.Name: guid(s.DT_ID) for s in g.select_many('S_DT')}
    r = Rows()
    obj = {}
    attr = {}
    for cname, attrs in diagram['classes']:
        oid = r.new_id()
        obj[cname] = oid
        r.insert('O_OBJ', Obj_ID=oid, Name="'%s'" % cname, Key_Lett="'%s'" % cname, Descrip="''")
        r.insert('PE_PE', Element_ID=oid, Visibility=1, type=4)      # O_OBJ.Obj_ID is referential (R8001)
        for k in range(3):
            r.insert('O_ID', Oid_ID=k, Obj_ID=oid)
        for (an, ty, ids) in attrs:
            aid = r.attr(oid, an, CORE[ty])
            attr[(cname, an)] = aid
            r.insert('O_BATTR', Attr_ID=aid, Obj_ID=oid)
            r.insert('O_NBATTR', Attr_ID=aid, Obj_ID=oid)
            for k in ids:
                r.insert('O_OIDA', Attr_ID=aid, Obj_ID=oid, Oid_ID=k)
    pm, pc, fm, fc = mc
    for (numb, part, form, refs) in diagram['assocs']:
        rel, poir, foir = r.new_id(), r.new_id(), r.new_id()
        r.insert('R_REL', Rel_ID=rel, Numb=numb)
        r.insert('PE_PE', Element_ID=rel, Visibility=1, type=9)      # R_REL.Rel_ID is referential (R8001)
        r.insert('R_SIMP', Rel_ID=rel)
        r.insert('R_OIR', Obj_ID=obj[part], Rel_ID=rel, OIR_ID=poir)
        r.insert('R_RTO', Obj_ID=obj[part], Rel_ID=rel, OIR_ID=poir, Oid_ID=0)
        r.insert('R_PART', Obj_ID=obj[part], Rel_ID=rel, OIR_ID=poir, Mult=pm, Cond=pc, Txt_Phrs="'is the %d of'" % numb)
        r.insert('R_OIR', Obj_ID=obj[form], Rel_ID=rel, OIR_ID=foir)
        r.insert('R_RGO', Obj_ID=obj[form], Rel_ID=rel, OIR_ID=foir)
        r.insert('R_FORM', Obj_ID=obj[form], Rel_ID=rel, OIR_ID=foir, Mult=fm, Cond=fc, Txt_Phrs="'has %d'" % numb)
        for (rn, idn) in refs:
            ida = attr[(part, idn)]
            r.insert('O_RTIDA', Attr_ID=ida, Obj_ID=obj[part], Oid_ID=0, Rel_ID=rel, OIR_ID=poir)
            ra = r.attr(obj[form], rn, CORE['same_as<Base_Attribute>'])
            r.insert('O_RATTR', Attr_ID=ra, Obj_ID=obj[form], BAttr_ID=ida, BObj_ID=obj[part])
            r.insert('O_REF', Obj_ID=obj[form], RObj_ID=obj[part], ROid_ID=0, RAttr_ID=ida, Rel_ID=rel, OIR_ID=foir,
                     ROIR_ID=poir, Attr_ID=ra, ARef_ID=r.new_id())
    def formalise(rel, form, foir, part, poir, refs, done):
        for (rn, idn) in refs:
            ida = attr[(part, idn)]
            if (ida, poir) not in done:
                done.add((ida, poir))
                r.insert('O_RTIDA', Attr_ID=ida, Obj_ID=obj[part], Oid_ID=0, Rel_ID=rel, OIR_ID=poir)
            ra = r.attr(obj[form], rn, CORE['same_as<Base_Attribute>'])
            r.insert('O_RATTR', Attr_ID=ra, Obj_ID=obj[form], BAttr_ID=ida, BObj_ID=obj[part])
            r.insert('O_REF', Obj_ID=obj[form], RObj_ID=obj[part], ROid_ID=0, RAttr_ID=ida, Rel_ID=rel, OIR_ID=foir,
                     ROIR_ID=poir, Attr_ID=ra, ARef_ID=r.new_id())
    for (numb, sup, subs) in diagram.get('subsups', []):
        rel, soir = r.new_id(), r.new_id()
        r.insert('R_REL', Rel_ID=rel, Numb=numb)
        r.insert('PE_PE', Element_ID=rel, Visibility=1, type=9)      # R_REL.Rel_ID is referential (R8001)
        r.insert('R_SUBSUP', Rel_ID=rel)
        r.insert('R_OIR', Obj_ID=obj[sup], Rel_ID=rel, OIR_ID=soir)
        r.insert('R_RTO', Obj_ID=obj[sup], Rel_ID=rel, OIR_ID=soir, Oid_ID=0)
        r.insert('R_SUPER', Obj_ID=obj[sup], Rel_ID=rel, OIR_ID=soir)
        done = set()
        for (sub, refs) in subs:
            foir = r.new_id()
            r.insert('R_OIR', Obj_ID=obj[sub], Rel_ID=rel, OIR_ID=foir)
            r.insert('R_RGO', Obj_ID=obj[sub], Rel_ID=rel, OIR_ID=foir)
            r.insert('R_SUB', Obj_ID=obj[sub], Rel_ID=rel, OIR_ID=foir)
            formalise(rel, sub, foir, sup, soir, refs, done)
    for (numb, one_c, oth_c, link_c, refs_one, refs_oth, ph_one, ph_oth) in diagram.get('linked', []):
        rel, ooir, toir, loir = r.new_id(), r.new_id(), r.new_id(), r.new_id()
        r.insert('R_REL', Rel_ID=rel, Numb=numb)
        r.insert('PE_PE', Element_ID=rel, Visibility=1, type=9)      # R_REL.Rel_ID is referential (R8001)
        r.insert('R_ASSOC', Rel_ID=rel)
        r.insert('R_OIR', Obj_ID=obj[one_c], Rel_ID=rel, OIR_ID=ooir)
        r.insert('R_RTO', Obj_ID=obj[one_c], Rel_ID=rel, OIR_ID=ooir, Oid_ID=0)
        r.insert('R_AONE', Obj_ID=obj[one_c], Rel_ID=rel, OIR_ID=ooir, Mult=pm, Cond=pc, Txt_Phrs="'%s'" % ph_one)
        r.insert('R_OIR', Obj_ID=obj[oth_c], Rel_ID=rel, OIR_ID=toir)
        r.insert('R_RTO', Obj_ID=obj[oth_c], Rel_ID=rel, OIR_ID=toir, Oid_ID=0)
        r.insert('R_AOTH', Obj_ID=obj[oth_c], Rel_ID=rel, OIR_ID=toir, Mult=fm, Cond=fc, Txt_Phrs="'%s'" % ph_oth)
        r.insert('R_OIR', Obj_ID=obj[link_c], Rel_ID=rel, OIR_ID=loir)
        r.insert('R_RGO', Obj_ID=obj[link_c], Rel_ID=rel, OIR_ID=loir)
        r.insert('R_ASSR', Obj_ID=obj[link_c], Rel_ID=rel, OIR_ID=loir, Mult=0)
        done = set()
        formalise(rel, link_c, loir, one_c, ooir, refs_one, done)
        formalise(rel, link_c, loir, oth_c, toir, refs_oth, done)
    rows = list(r.rows)
    if order is not None:
        random.Random(order).shuffle(rows)
    return '\n'.join(rows) + '\n'


def card(mu, co):
    return ('M' if mu else '1') + ('C' if co else '')


def expected(diagram, mc):
    """signature straight from the abstract diagram"""
    pm, pc, fm, fc = mc
    types = {}
    classes = {}
    idents = {}
    for cname, attrs in diagram['classes']:
        classes[cname.upper()] = [(an, ty.upper()) for an, ty, _ in attrs]
        for an, ty, ids in attrs:
            types[(cname, an)] = ty.upper()
            for k in ids:
                idents.setdefault(cname.upper(), {}).setdefault('I%d' % (k + 1), set()).add(an)
        idents.setdefault(cname.upper(), {})
    assocs = []
    for (numb, part, form, refs) in diagram['assocs']:
        for rn, idn in refs:
            classes[form.upper()].append((rn, types[(part, idn)]))
            types[(form, rn)] = types[(part, idn)]
        refl = part == form
        assocs.append(('R%d' % numb, form, frozenset(refs), card(fm, fc), ("is the %d of" % numb) if refl else '',
                       part, card(pm, pc), ("has %d" % numb) if refl else ''))
    for (numb, sup, subs) in diagram.get('subsups', []):
        for sub, refs in subs:
            for rn, idn in refs:
                classes[sub.upper()].append((rn, types[(sup, idn)]))
            # a subtype instance has exactly one supertype instance; a supertype instance at most one of each subtype
            assocs.append(('R%d' % numb, sub, frozenset(refs), '1C', '', sup, '1', ''))
    for (numb, one_c, oth_c, link_c, refs_one, refs_oth, ph_one, ph_oth) in diagram.get('linked', []):
        for rn, idn in refs_one:
            classes[link_c.upper()].append((rn, types[(one_c, idn)]))
        for rn, idn in refs_oth:
            classes[link_c.upper()].append((rn, types[(oth_c, idn)]))
        refl = one_c == oth_c
        # link class -> one side: as many link instances per instance of that side as the OTHER side's multiplicity allows
        assocs.append(('R%d' % numb, link_c, frozenset(refs_one), card(fm, fc), ph_one if refl else '', one_c, '1', ph_oth if refl else ''))
        assocs.append(('R%d' % numb, link_c, frozenset(refs_oth), card(pm, pc), ph_oth if refl else '', oth_c, '1', ph_one if refl else ''))
    return classes, {k: {i: frozenset(v) for i, v in d.items()} for k, d in idents.items()}, sorted(assocs, key=repr)


def observed(dom):
    classes = {k: [(n, t.upper()) for n, t in mc.attributes] for k, mc in dom.metaclasses.items()}
    idents = {k: {i: frozenset(v) for i, v in mc.indices.items()} for k, mc in dom.metaclasses.items()}
    assocs = []
    for a in dom.associations:
        sl, tl = a.source_link, a.target_link
        assocs.append((a.rel_id, sl.to_metaclass.kind, frozenset(zip(a.source_keys, a.target_keys)), sl.cardinality, tl.phrase,
                       tl.to_metaclass.kind, tl.cardinality, sl.phrase))
    return classes, idents, sorted(assocs, key=repr)


def check(ci: int) -> bool:
    """
    pre: 0 <= ci < NCASES
    post: POST(_)
    """
    global LAST_DIFF
    d, m, o = CASES[cs(ci, 0, NCASES - 1)]
    diagram, mc, order = DIAGRAMS[d], MC[m], ORDERS[o]
    with notrace():
        text = synthesise(diagram, mc, order)
        l = ooaofooa.Loader()
        l.input(text)
        bp = l.build_metamodel()
    dom = ooaofooa.mk_component(bp)
    case('synth', d, mc, order)
    with notrace():
        got, exp = observed(dom), expected(diagram, mc)
        # the SQL schema written for the component loads back to the same definitions
        l2 = xtuml.ModelLoader(); l2.input(xtuml.serialize_schema(dom) + xtuml.serialize_unique_identifiers(dom))
        back = observed(l2.build_metamodel())
    for name, g, e in zip(('classes', 'identifiers', 'associations'), got, exp):
        if g != e:
            LAST_DIFF = ('component differs from the class diagram in its %s' % name, repr(g), repr(e)); return False
    if back != got:
        LAST_DIFF = ('written schema does not load back to the same definitions', repr(back), repr(got)); return False
    return True
