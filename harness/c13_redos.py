"""C13 / C12 (E2 lemma on the scanners, 'in bounded time'): PLY hands the text to Python's backtracking regex engine,
one alternation of the t_* rules.  A rule whose regex contains a star/plus group that can read one and the same string
in two ways (two alternatives of the group match the same string, or one iteration's string can also be read as two or
more iterations) makes the engine try 2^n readings of n such strings before it gives up, i.e. a text that OPENS such
a token and never closes it is scanned in exponential time.

For every t_* rule of the CURRENT source (regex from the docstring; VERIF_PARAMS selects the OAL scanner or the
loader's scanner) and every unbounded repetition in it, z3 (sequence/regex theory) decides
   (a) for every pair of alternatives A_i, A_j of the repeated group:  exists s, 0 < |s| <= 6:  s in L(A_i) and s in L(A_j)
   (b) exists s, 0 < |s| <= 6:  s in L(G) and s in L(G G+)                                  (G the repeated group)
unsat for all = no repetition of the rule is ambiguous within the bound.  A sat answer is a CANDIDATE only: the solver
also produces an opening text (a member of the rule's language that contains the witness, cut before it), and the real
parser is run on  opening + witness * 48  (never closed) in a child process.  It is a violation only if that run does
not end within 15 s while the same text with 4 repetitions ends at once; a candidate that the real scanner handles is
recorded as refuted (the engine's optimisations or the rule order avoid the blow-up) and is not reported."""
import ast
import json
import os
import subprocess
import sys
import time

import z3
import re._parser as sre
import re._constants as sc

SCRATCH = os.environ['VERIF_SCRATCH']
PARAMS = json.loads(os.environ.get('VERIF_PARAMS', '{}'))
sys.path.insert(0, SCRATCH)
sys.path.insert(0, os.path.dirname(os.path.abspath(__file__)))
import c01_lex_re as RX  # noqa

WHICH = PARAMS.get('scanner', 'oal')
SRC, CLS = {'oal': ('bridgepoint/oal.py', 'OALParser'), 'load': ('xtuml/load.py', 'ModelLoader')}[WHICH]
CHILD = {
    'oal': "import sys, bridgepoint.oal as o\ntry:\n    o.parse(sys.stdin.read())\nexcept o.ParseException:\n    pass\n",
    'load': "import sys, xtuml\nl = xtuml.ModelLoader()\ntry:\n    l.input(sys.stdin.read())\nexcept xtuml.load.ParsingException:\n    pass\n",
}[WHICH]
queries, violations, inconclusive, errors, samples = [], [], [], [], []


def repeats(items, out):
    """all unbounded repetitions (star / plus, greedy or lazy) in a parsed regex, innermost included"""
    for op, av in items:
        if op in (sc.MAX_REPEAT, sc.MIN_REPEAT):
            lo, hi, sub = av
            if hi == sc.MAXREPEAT:
                out.append(sub)
            repeats(sub, out)
        elif op == sc.SUBPATTERN:
            repeats(av[3], out)
        elif op == sc.BRANCH:
            for b in av[1]:
                repeats(b, out)
        elif op in (sc.ASSERT, sc.ASSERT_NOT):
            repeats(av[1], out)
    return out


def alternatives(sub):
    """alternatives of a repeated group: unwrap ( ... ) around a single branch"""
    items = list(sub)
    while len(items) == 1 and items[0][0] == sc.SUBPATTERN:
        items = list(items[0][1][3])
    if len(items) == 1 and items[0][0] == sc.BRANCH:
        return [list(b) for b in items[0][1][1]]
    return None


def ask(name, *constraints):
    s = z3.String('s')
    sol = z3.Solver(); sol.set('timeout', 60000)
    sol.add(z3.Length(s) > 0, z3.Length(s) <= 6, *[c(s) for c in constraints])
    t = time.time(); r = str(sol.check()); dt = time.time() - t
    rec = {'name': name, 'result': r, 'solver_s': round(dt, 2)}
    w = None
    if r == 'sat':
        w = sol.model().eval(s).as_string()
        w = w.encode('latin-1', 'backslashreplace').decode('unicode_escape') if '\\u{' not in w else z3_unescape(w)
        rec['witness'] = repr(w)
    elif r != 'unsat':
        inconclusive.append('%s: solver %s' % (name, r))
    queries.append(rec)
    return w


def z3_unescape(w):
    import re
    return re.sub(r'\\u\{([0-9a-fA-F]+)\}', lambda m: chr(int(m.group(1), 16)), w)


def opening(rule_re, w):
    """a text that takes the scanner into the rule and up to the witness: a member of the rule's language containing
    the witness, cut before the witness"""
    x = z3.String('x'); p = z3.String('p'); q = z3.String('q')
    sol = z3.Solver(); sol.set('timeout', 60000)
    sol.add(z3.InRe(x, rule_re), x == z3.Concat(p, z3.StringVal(w), q), z3.Length(x) <= 12)
    if str(sol.check()) != 'sat':
        return None
    return z3_unescape(sol.model().eval(p).as_string())


def timed(text, limit):
    t = time.time()
    try:
        r = subprocess.run([sys.executable, '-c', CHILD], input=text, text=True, capture_output=True, timeout=limit,
                           env=dict(os.environ, PYTHONPATH=SCRATCH))
        return time.time() - t, r.returncode, r.stderr[-300:]
    except subprocess.TimeoutExpired:
        return None, None, ''


def candidate(rule, what, rule_re, w):
    op = opening(rule_re, w)
    if op is None or op == '':
        inconclusive.append('rule %s: %s with witness %r: no opening text found' % (rule, what, w))
        return
    small, rc, err = timed(op + w * 4, 30)
    if small is None or rc != 0:
        errors.append('rule %s: replay child failed on the short text %r (%s)' % (rule, op + w * 4, err))
        return
    big, rc2, err2 = timed(op + w * 48, 15)
    rec = {'rule': rule, 'what': what, 'witness': w, 'opening': op, 'short_s': round(small, 2), 'long_s': None if big is None else round(big, 2)}
    if big is None:
        violations.append({'what': 'scanner %s, rule %s: %s (witness %r): the unterminated text %r + %r * 48 is not scanned within 15 s (4 repetitions: %.2f s) - exponential backtracking, parsing is not in bounded time'
                                   % (WHICH, rule, what, w, op, w, small), 'rule': rule, 'text': op + w * 48, 'scanner': WHICH, 'key': '%s/redos-%s' % (PARAMS.get('property', 'C13'), rule)})
    else:
        rec['refuted'] = True
        if rc2 != 0:
            errors.append('rule %s: replay child failed on the long text (%s)' % (rule, err2))
    samples.append(rec)


def main():
    with open(os.path.join(SCRATCH, SRC)) as f:
        tree = ast.parse(f.read())
    cls = [n for n in tree.body if isinstance(n, ast.ClassDef) and n.name == CLS][0]
    rules = []
    for fn in cls.body:
        if isinstance(fn, ast.FunctionDef) and fn.name.startswith('t_') and fn.name != 't_error':
            doc = ast.get_docstring(fn, clean=False)
            if doc is not None:
                rules.append((fn.name[2:], doc))
        elif isinstance(fn, ast.Assign) and len(fn.targets) == 1 and isinstance(fn.targets[0], ast.Name) \
                and fn.targets[0].id.startswith('t_') and fn.targets[0].id != 't_ignore' and isinstance(fn.value, ast.Constant) and isinstance(fn.value.value, str):
            rules.append((fn.targets[0].id[2:], fn.value.value))
    nrep = 0
    for name, doc in rules:
        try:
            parsed = sre.parse(doc)
            rule_re = RX.to_z3(doc)
            reps = repeats(list(parsed), [])
        except Exception as e:  # noqa
            inconclusive.append('rule %s: regex %r not translatable (%s)' % (name, doc, e))
            continue
        for k, sub in enumerate(reps):
            nrep += 1
            try:
                G = RX.conv(list(sub))
                alts = alternatives(sub)
                A = [RX.conv(a) for a in alts] if alts else []
            except Exception as e:  # noqa
                inconclusive.append('rule %s repetition %d: not translatable (%s)' % (name, k, e))
                continue
            for i in range(len(A)):
                for j in range(i + 1, len(A)):
                    w = ask('rule %s repetition %d: alternatives %d and %d share a string' % (name, k, i, j),
                            lambda s, a=A[i]: z3.InRe(s, a), lambda s, b=A[j]: z3.InRe(s, b))
                    if w:
                        candidate(name, 'alternatives %d and %d of a repeated group both match' % (i, j), rule_re, w)
            w = ask('rule %s repetition %d: one iteration readable as several' % (name, k),
                    lambda s, g=G: z3.InRe(s, g), lambda s, g=G: z3.InRe(s, z3.Concat(g, z3.Plus(g))))
            if w:
                candidate(name, 'one iteration of a repeated group can be read as several iterations', rule_re, w)
    if nrep == 0:
        errors.append('no repetition found in any t_* rule of %s (extraction broken?)' % SRC)
    verdict = 'confirmed'
    if violations:
        verdict = 'counterexample'
    elif errors or inconclusive:
        verdict = 'inconclusive'
    res = dict(verdict=verdict, queries=queries, violations=violations, inconclusive=inconclusive, errors=errors, samples=samples,
               functions_encoded=['%s:%s.t_* (token regexes, every unbounded repetition)' % (SRC, CLS)])
    with open(os.environ['VERIF_RESULT'], 'w') as f:
        json.dump(res, f)
    print(json.dumps({k: res[k] for k in ('verdict', 'violations', 'inconclusive', 'errors')}, indent=1)[:3000])
    print(json.dumps(samples, indent=1)[:3000])


main()
