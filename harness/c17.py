from engine_api import Cond

PROPERTY = 'C17'
LEVEL = 'other'
ASSUMPTIONS = [
    'element universe 0..U-1 (U=4 quick, 5 thorough), plus universes containing None, a string and a tuple for the single-operand operations; pre-state length <= 3 (4 thorough); second operand length <= 2',
    'every selector is case-split (set elements are hashed); the pre-state is built with the class constructor',
    'observers: list, reversed, len, in over the whole universe, QuerySet.first/last',
    'non-in-place algebra (| & - ^) is checked for element content and self-consistency, not for a particular order',
]

UNARY = ['add', 'discard', 'remove', 'pop_last', 'pop_first', 'clear', 'iter_remove', 'iter_discard_rev']
BINARY = ['ior', 'iand', 'isub', 'ixor', 'or', 'and', 'sub', 'xor', 'eq', 'ne', 'ctor']


def conditions(tier, seed):
    U = 4 if tier == 'quick' else 5
    maxn = 3 if tier == 'quick' else 4
    maxm = 2
    out = []
    t = 240 if tier == 'quick' else 1500
    for cls in ('OrderedSet', 'QuerySet'):
        for op in UNARY:
            if cls == 'QuerySet' and op in ('discard', 'remove', 'iter_discard_rev'):
                if tier == 'quick':
                    continue
            out.append(Cond('step_%s_%s' % (cls, op), 'c17_step.py',
                            dict(op=op, cls=cls, U=U, maxn=maxn, maxm=maxm), timeout=t,
                            func=('check_unary' if op in ('add', 'discard', 'remove') else 'check_iter' if op.startswith('iter') else 'check_nullary'),
                            bound='xs: dup-free sequences, |xs|<=%d over 0..%d; one %s' % (maxn, U - 1, op),
                            case_split=['cx (index into the table of all duplicate-free sequences)', 'k', 'mask']))
    for el in ('none', 'mixed'):
        for op in UNARY + ['isub_self', 'ixor_self', 'ior_list', 'eq_list']:
            if tier == 'quick' and el == 'mixed' and op not in ('pop_last', 'pop_first', 'clear', 'add'):
                continue
            if '_' in op and op.split('_')[1] in ('self', 'list') and op.split('_')[0] in ('isub', 'ixor', 'ior', 'eq'):
                o, ot = op.split('_')
                out.append(Cond('step_%s_%s_%s' % (el, o, ot), 'c17_step.py', dict(op=o, cls='OrderedSet', otype=ot, U=U, maxn=maxn, maxm=maxm, elems=el),
                                func=('check_self' if ot == 'self' else 'check_binary'), timeout=t,
                                bound='as the integer conditions, element universe %s (None / str / tuple elements)' % el,
                                case_split=['cx', 'cy'], twin=False))
            else:
                out.append(Cond('step_%s_%s' % (el, op), 'c17_step.py', dict(op=op, cls='OrderedSet', U=U, maxn=maxn, maxm=maxm, elems=el), timeout=t,
                                func=('check_unary' if op in ('add', 'discard', 'remove') else 'check_iter' if op.startswith('iter') else 'check_nullary'),
                                bound='as the integer conditions, element universe %s (None / str / tuple elements)' % el,
                                case_split=['cx', 'k', 'mask'], twin=False))
    for el in ('none', 'mixed'):
        for op in ('pop_last', 'pop_first', 'add', 'discard'):
            out.append(Cond('step_%s_QuerySet_%s' % (el, op), 'c17_step.py', dict(op=op, cls='QuerySet', U=U, maxn=maxn, maxm=maxm, elems=el), timeout=t,
                            func=('check_unary' if op in ('add', 'discard') else 'check_nullary'),
                            bound='QuerySet (first / last observed) over the element universe %s (falsy elements: None, 0, empty string, empty tuple)' % el,
                            case_split=['cx', 'k'], twin=False))
    otypes = ['OrderedSet', 'list', 'tuple', 'self'] if tier == 'quick' else \
        ['OrderedSet', 'list', 'tuple', 'QuerySet', 'generator', 'self']
    for op in BINARY:
        for ot in otypes:
            if ot == 'self' and op == 'ctor':
                continue
            if ot == 'generator' and op in ('eq', 'ne'):
                continue
            clss = ('OrderedSet',) if (tier == 'quick' and ot != 'OrderedSet') else ('OrderedSet', 'QuerySet')
            for cls in clss:
                nxs = [None] if (ot == 'self' or tier == 'quick') else list(range(maxn + 1))
                for nx in nxs:
                    # split by |xs| so the conditions run in parallel
                    out.append(Cond('step_%s_%s_%s_n%s' % (cls, op, ot, 'any' if nx is None else nx),
                                    'c17_step.py',
                                    dict(op=op, cls=cls, otype=ot, U=U, maxn=maxn, maxm=maxm, nx=nx),
                                    func=('check_self' if ot == 'self' else 'check_binary'),
                                    timeout=t,
                                    bound='xs dup-free |xs|%s over 0..%d; ys dup-free |ys|<=%d as %s; one %s' % (
                                        '<=%d' % maxn if nx is None else '=%d' % nx, U - 1, maxm, ot, op),
                                    case_split=['cx', 'cy (indices into the tables of all duplicate-free sequences)'],
                                    twin=(nx in (None, 2))))
    for op in ('ior', 'iand', 'isub', 'ixor', 'or', 'and', 'sub', 'xor', 'ctor'):
        for ot in (('list', 'tuple') if tier == 'quick' else ('list', 'tuple', 'generator')):
            out.append(Cond('step_dups_%s_%s' % (op, ot), 'c17_step.py', dict(op=op, cls='OrderedSet', otype=ot, U=U, maxn=min(maxn, 3), maxm=maxm, dups=1),
                            func='check_binary', timeout=t,
                            bound='xs dup-free; ys a %s of length 2..3 over 3 elements that lists an element more than once; one %s: the result is that of the SET ys denotes' % (ot, op),
                            case_split=['cx', 'cy'], twin=False))
    return out
