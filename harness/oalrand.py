"""Seeded generator of type-correct, error-free OAL programs (oalgen mini-AST) for C04's generated
family.  Error-freedom by construction: integer variables are assigned in the current or an enclosing
block before they are read; attribute reads only on for-each loop variables and on instances guarded
by not_empty; every while loop is driven by a fresh counter with a literal bound <= 3 (increment first,
so break / continue cannot make it diverge); relate only between a freshly created pair; '%' and '/'
are not generated."""
import random
from oalprogs import I, V, P, A, SEL, T, F, B, U, let, seta, IF, WH, FE, RET, inc


class Gen(object):
    def __init__(self, seed):
        self.r = random.Random(seed)
        self.n = 0

    def fresh(self, prefix):
        self.n += 1
        return '%s%d' % (prefix, self.n)

    def int_expr(self, ints, insts, d=2):
        r = self.r
        choices = ['lit', 'param']
        if ints: choices += ['var', 'var']
        if insts: choices += ['attr']
        if d > 0: choices += ['bin', 'bin', 'neg']
        c = r.choice(choices)
        if c == 'lit': return I(r.randint(0, 5))
        if c == 'param': return P(r.choice(['p1', 'p2']))
        if c == 'var': return V(r.choice(ints))
        if c == 'attr':
            v, k = r.choice(insts)
            return A(V(v), {'A': 'n', 'B': 'v'}[k])
        if c == 'neg': return U('-', self.int_expr(ints, insts, d - 1))
        return B(r.choice(['+', '-', '*']), self.int_expr(ints, insts, d - 1), self.int_expr(ints, insts, d - 1))

    def bool_expr(self, ints, insts, d=2):
        r = self.r
        c = r.choice(['cmp', 'cmp', 'pb', 'and', 'or', 'not'] if d > 0 else ['cmp', 'pb'])
        if c == 'cmp':
            return B(r.choice(['<', '<=', '>', '>=', '==', '!=']), self.int_expr(ints, insts, 1), self.int_expr(ints, insts, 1))
        if c == 'pb': return P('pb')
        if c == 'not': return U('not', self.bool_expr(ints, insts, d - 1))
        return B(c, self.bool_expr(ints, insts, d - 1), self.bool_expr(ints, insts, d - 1))

    def block(self, ints, insts, depth, in_loop, size, ro=()):
        """ints: visible integer variables; insts: visible non-empty instance variables (name, class)"""
        ints = list(ints); insts = list(insts); ro = set(ro)      # ro: loop counters, readable but never assigned
        out = []
        for _ in range(size):
            kinds = ['assign', 'assign', 'if', 'attrw', 'select_guard', 'create']
            if depth > 0: kinds += ['while', 'foreach', 'if']
            if in_loop: kinds += ['break', 'continue']
            k = self.r.choice(kinds)
            if k == 'assign':
                wr = [v for v in ints if v not in ro]
                if wr and self.r.random() < 0.6:
                    x = self.r.choice(wr)
                else:
                    x = self.fresh('x'); 
                out.append(let(x, self.int_expr(ints, insts)))
                if x not in ints: ints.append(x)
            elif k == 'if':
                elifs = [(self.bool_expr(ints, insts), self.block(ints, insts, depth - 1, in_loop, 1, ro))] if self.r.random() < 0.4 else []
                els = self.block(ints, insts, depth - 1, in_loop, 1, ro) if self.r.random() < 0.5 else None
                out.append(IF(self.bool_expr(ints, insts), self.block(ints, insts, depth - 1, in_loop, self.r.randint(1, 2), ro), elifs, els))
            elif k == 'attrw' and insts:
                v, kk = self.r.choice(insts)
                out.append(seta(v, {'A': 'n', 'B': 'v'}[kk], self.int_expr(ints, insts)))
            elif k == 'select_guard':
                kk = self.r.choice(['A', 'B'])
                v = self.fresh('s')
                where = B(self.r.choice(['<', '>', '==']), A(SEL, {'A': 'n', 'B': 'v'}[kk]), self.int_expr(ints, [], 1)) if self.r.random() < 0.7 else None
                out.append(('select', 'any', v, kk, where))
                out.append(IF(U('not_empty', V(v)), self.block(ints, insts + [(v, kk)], depth - 1, in_loop, 1, ro)))
            elif k == 'create':
                a, b = self.fresh('a'), self.fresh('b')
                out.append(('create', a, 'A')); out.append(('create', b, 'B'))
                out.append(seta(b, 'v', self.int_expr(ints, insts, 1)))
                if self.r.random() < 0.6:
                    out.append(('relate', b, a, 1, None))
                insts += [(a, 'A'), (b, 'B')]
            elif k == 'while':
                i = self.fresh('i')
                out.append(let(i, I(0)))
                body = [inc(i)] + self.block(ints + [i], insts, depth - 1, True, self.r.randint(1, 2), ro | {i})
                out.append(WH(B('<', V(i), I(self.r.randint(1, 3))), body))
                ints.append(i)
            elif k == 'foreach':
                kk = self.r.choice(['A', 'B'])
                sv, e = self.fresh('set'), self.fresh('e')
                where = B('>=', A(SEL, {'A': 'n', 'B': 'v'}[kk]), self.int_expr(ints, [], 1)) if self.r.random() < 0.5 else None
                out.append(('select', 'many', sv, kk, where))
                out.append(FE(e, sv, self.block(ints, insts + [(e, kk)], depth - 1, True, self.r.randint(1, 2), ro)))
            elif k == 'break' and in_loop:
                out.append(IF(self.bool_expr(ints, insts, 1), [('break',)]))
            elif k == 'continue' and in_loop:
                out.append(IF(self.bool_expr(ints, insts, 1), [('continue',)]))
        return out

    def program(self):
        body = [let('r0', I(0))] + self.block(['r0'], [], 2, False, self.r.randint(3, 5))
        ints = ['r0']
        # result: combination of every top-level integer variable still in scope
        for s in body:
            if s[0] == 'assign' and s[1][0] == 'var' and s[1][1] not in ints:
                ints.append(s[1][1])
        e = V(ints[0])
        for x in ints[1:]:
            e = B('+', B('*', e, I(3)), V(x))
        return body + [('select', 'many', 'allb', 'B', None), RET(B('+', e, U('cardinality', V('allb'))))]


def generated(seed, count):
    out = []
    for k in range(count):
        g = Gen(seed * 100003 + k)
        out.append(('gen_%d_%d' % (seed, k), g.program()))
    return out
