from engine_api import Cond

PROPERTY = 'C18'
LEVEL = 'other'
ASSUMPTIONS = [
    'one schema (two classes, 1:M association, identifier) with 2+2 rows, one additional input with rows and a new class',
    'mutations use fixed values (non-interference does not depend on the value written)',
    'model text realised, parsed by PLY outside the tracer; comparison through xtuml.serialize of each metamodel',
]


def conditions(tier, seed):
    t = 600 if tier == 'quick' else 3000
    out = []
    if tier == 'quick':
        plan = [(2, 8, list(range(8))), (3, 128, [(seed * 5 + k * 37) % 128 for k in range(4)])]
    else:
        plan = [(2, 8, list(range(8))), (3, 128, list(range(128)))]
    for steps, ns, picks in plan:
        for sh in picks:
            out.append(Cond('interleave%d_s%d' % (steps, sh), 'c18_indep.py', dict(steps=steps, shard=sh, nshards=ns), timeout=t,
                            bound='first build, then every sequence of %d steps out of {build, build with an explicit integer generator, input, rejected input, 11 mutations x 2 target metamodels}, then a final build (shard %d/%d)' % (steps, sh, ns),
                            case_split=['si (step sequence)'], realised=['model text'], twin=(sh == picks[0])))
    return out
