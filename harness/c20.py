from engine_api import Cond

PROPERTY = 'C20'
LEVEL = 'other'
ASSUMPTIONS = [
    'base model: fixtures/Simple_Model.xtuml, component Comp (5 classes, user-defined and enumeration types, ooaofooa globals)',
    'metamorphic oracle on the element tree returned by build_schema; new names are symbolic strings of length 1..3 (they never pass a lexer); edit sites case-split; one edit per run (thorough: every edit followed by a rename, scripts of length two)',
    'the attribute ORDER inside an element is not constrained (the statement speaks of one attribute per modelled attribute); enumerators are compared in order',
    'core data types other than boolean/integer/real/string/unique_id, and user types based on them, get no declaration',
    'well-formedness: ET.fromstring(ET.tostring(tree)) and prettify on the realised tree',
]


def conditions(tier, seed):
    t = 600 if tier == 'quick' else 3000
    spec = [('rename', 'check_rename', 'rename every attribute to a symbolic name', ['s'], ['si']),
            ('retype', 'check_retype', 'retype every base attribute to each of 9 data types; referential attributes follow', [], ['bi', 'ti']),
            ('reftype', 'check_reftype', 'set the own data type of every referential attribute to each of 9 data types: the declaration keeps following the referred attribute', [], ['ri', 'ti']),
            ('enum', 'check_enum', 'append / swap / rename / remove all enumerators (R56 chain)', ['s'], ['op']),
            ('udt', 'check_udt', 'add a user-defined type (3 names) on 4 kinds of base type, re-base one, place it two packages below the component (declared once) or one / two packages deep in a sibling component (not declared)', [], ['bi', 'ni']),
            ('scope', 'check_scope', 'move each class out of the component, into a component nested in it (no change) or into a sibling component / make an attribute derived / unedited baseline vs reviewed expectation + well-formed XML', [], ['ci', 'how'])]
    out = [Cond(n, 'c20_xsd.py', dict(edit=n), func=f, timeout=t, bound=b, symbolic=s, case_split=c,
                realised=['model text (PLY, outside the tracer)']) for n, f, b, s, c in spec]
    if tier == 'thorough':
        # edit scripts of length two: every first edit followed by the rename of any attribute to a symbolic name
        for n, f, b, s, c in spec:
            if n in ('rename',):
                continue
            out.append(Cond(n + '_then_rename', 'c20_xsd.py', dict(edit=n + '+rename'), func=f + '2', timeout=t,
                            bound='%s; THEN any attribute renamed to a symbolic name (edit scripts of length 2)' % b,
                            symbolic=list(s) + ['s2'], case_split=list(c) + ['si2'], realised=['model text (PLY, outside the tracer)'], twin=False))
    return out
