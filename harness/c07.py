from engine_api import Cond
import itertools

PROPERTY = 'C07'
LEVEL = 'model_checking'
EXPLANATION = ('bit-vector bounded model check (z3) of the LALR(1) automaton regenerated from the shipped grammar over a symbolic token string, '
               'plus solver-enumerated layout / optional-word variants of statement productions parsed by the real parser')
ASSUMPTIONS = [
    'expression alphabet: operands NUMBER and TRUE (all operand kinds reduce through expression : constant / variable_access and are not distinguished), the 16 binary operator tokens, 6 unary tokens, parentheses; strings RETURN t1..tN ; with N <= 4 exhaustively and N = 5 by cubes (quick: all dead prefixes + all 16 cubes NUMBER <binary operator>, i.e. every pair of adjacent binary operators, + 4 seed-rotated unary/parenthesis cubes; thorough: all 95 viable cubes; N = 6 sampled 3-token cubes in thorough)',
    'oracle = reference precedence table written from the property statement (or < and < comparison (non-associative) < + - | < * / & ^ < %, unary tightest, parentheses group) and a hand-written well-formedness predicate kept honest by the tightness query',
    'the PLY driver loop is modelled in about 40 lines; every witness model is replayed through the real oal.parse (fresh tables) and a reference precedence-climbing parser',
    'statements / optional words / layout: the parser is only exercised on solver-enumerated variants (33 core programs + 10 carrier statements x 16 optional-word masks x 8x8 gap pairs, sampled by shard); not a verdict over all layouts; text-level totality is C13',
    'longer strings, other operand kinds and deeper nesting are outside the claim',
]
BIN = ['PLUS', 'MINUS', 'PIPE', 'TIMES', 'DIV', 'MOD', 'AMP', 'CARET', 'LE', 'LESSTHAN', 'DOUBLEEQUAL', 'NOTEQUAL', 'GE', 'GT', 'AND', 'OR']
UNY = ['NOT', 'EMPTY', 'NOT_EMPTY', 'CARDINALITY', 'PLUS', 'MINUS']
OPERANDS = ['NUMBER', 'TRUE']


def viable2():
    out = []
    for a in OPERANDS:
        out += [[a, b] for b in BIN]
    for a in UNY + ['LPAREN']:
        out += [[a, b] for b in OPERANDS + UNY + ['LPAREN']]
    return out


def conditions(tier, seed):
    out = []
    tmo = 300000 if tier == 'quick' else 1800000
    for n in (1, 2, 3, 4):
        out.append(Cond('bmc_N%d' % n, 'c07_bmc.py', dict(N=n, cubes=[[]], timeout_ms=tmo), kind='script', timeout=1500,
                        bound='every token string of length %d over the 24-token expression alphabet' % n,
                        symbolic=['t1..tN (token string)']))
    v = viable2()
    out.append(Cond('bmc_N5_dead_prefixes', 'c07_bmc.py', dict(N=5, cubes=[['!VIABLE2']], timeout_ms=tmo), kind='script', timeout=1500,
                    bound='length 5, all strings whose first two tokens are not a viable prefix', symbolic=['t1..t5']))
    if tier == 'quick':
        # every pair of adjacent binary operators starts with <operand> <binary operator>: all 16 such cubes with the
        # first operand fixed (operand kinds are symmetric), plus seed-rotated cubes starting with a unary operator / parenthesis
        picks = [['NUMBER', b] for b in BIN]
        rest = [c for c in v if c[0] not in OPERANDS]
        picks += [rest[(seed * 11 + k * 7) % len(rest)] for k in range(4)]
        groups = [[p] for p in picks]
    else:
        groups = [[p] for p in v]
    for g in groups:
        out.append(Cond('bmc_N5_%s' % '_'.join(g[0]), 'c07_bmc.py', dict(N=5, cubes=g, timeout_ms=tmo), kind='script',
                        timeout=1500 if tier == 'quick' else 7200,
                        bound='length 5, prefix %s' % ' '.join(g[0]), symbolic=['t3..t5']))
    if tier == 'thorough':
        import random
        rnd = random.Random(seed)
        seen6 = set()
        for k in range(48):
            a = rnd.choice(v)
            third = rnd.choice(BIN if a[1] in OPERANDS else OPERANDS + UNY + ['LPAREN'])
            if tuple(a + [third]) in seen6:
                continue
            seen6.add(tuple(a + [third]))
            out.append(Cond('bmc_N6_%s' % '_'.join(a + [third]), 'c07_bmc.py', dict(N=6, cubes=[a + [third]], timeout_ms=1500000),
                            kind='script', timeout=2400, bound='length 6, prefix %s' % ' '.join(a + [third]), symbolic=['t4..t6']))
    ns = 64 if tier == 'quick' else 8
    picks = [(seed * 3 + k * 9) % ns for k in range(4)] if tier == 'quick' else list(range(ns))
    for sh in picks:
        out.append(Cond('layout_s%d' % sh, 'c07_layout.py', dict(shard=sh, nshards=ns), timeout=900 if tier == 'quick' else 6000,
                        bound='statement productions x optional words x gap pairs (shard %d/%d of 47 x 16 x 144)' % (sh, ns),
                        case_split=['ci (program, optional-word mask, gap pair)'], realised=['program text']))
    q = tier == 'quick'
    out.append(Cond('abs_core', 'c07_abs.py', dict(family='core'), func='check_program', timeout=600 if q else 3000,
                    bound='36 statement skeletons written with minimal parentheses: the parsed tree, lifted back, equals the tree that was written (statement kinds, order, nesting, elif order, operands, names)',
                    case_split=['program'], realised=['program text'], twin=False))
    out.append(Cond('abs_params', 'c07_abs.py', {}, func='check_params', timeout=600 if q else 3000,
                    bound='5 invocation forms x 0..3 parameters x with / without a comma behind the last one, followed in the same process by a second text with another list and a list without parameters: exactly the parameters written, in order',
                    case_split=['form', 'n1', 'trailing comma', 'n2', 'trailing comma 2', 'form 2'], realised=['program text']))
    out.append(Cond('abs_gen', 'c07_abs.py', dict(family='gen', seed=seed, count=40 if q else 400), func='check_program', timeout=600 if q else 3000,
                    bound='%d generated programs (seed %d) written with minimal parentheses vs the tree that was written' % (40 if q else 400, seed),
                    case_split=['program'], realised=['program text'], twin=False))
    nsh = 16
    for sh in ([(seed + 5 * k) % nsh for k in range(2)] if q else range(nsh)):
        out.append(Cond('abs_trees_s%d' % sh, 'c07_abs.py', dict(family='trees', depth=2, shard=sh, nshards=nsh), func='check_tree', timeout=900 if q else 3000,
                        bound='all 19230 expression trees of depth <= 2 over or and == < + - * / %% and not/-/empty/cardinality (shard %d/%d), minimal parentheses' % (sh, nsh),
                        case_split=['tree'], realised=['expression text'], twin=(sh == 0)))
    out.append(Cond('layout_edges', 'c07_layout.py', {}, func='check_edges', timeout=900 if tier == 'quick' else 3000,
                    bound='47 programs x 11 layouts before the first token x 11 layouts behind the last token (incl. a line comment the text ends in)',
                    case_split=['program', 'lead', 'tail'], realised=['program text'], twin=False))
    return out


def coverage_extra(results):
    states = transitions = traces = 0
    for cond, res in results:
        if cond.kind == 'script':
            r = (res['script'].get('res') or {})
            states = max(states, r.get('states', 0))
            transitions = max(transitions, r.get('transitions', 0))
            traces += r.get('traces_validated', 0)
    return dict(states=states, transitions=transitions, traces_validated_against_impl=traces)
