"""C02 cross-check of the induction argument: every history of K calls from the EMPTY model over a
small pool (instances are created by the history itself), state compared with the relation model
after every step.  Shapes as in c02_step (single-association shapes)."""
import itertools
import xtuml
from xtuml import relate, unrelate, navigate_many as many
from hlib import POST, PARAMS, cs, case, notrace, stub_str
import c02_step as S

stub_str()
LAST_DIFF = None
K = PARAMS.get('k', 3)
SH = S.SH
(REL, SK, SKEYS, S_MANY, _sc, S_PHR, TK, TKEYS, T_MANY, _tc, T_PHR) = SH['assocs'][0]
# operations on a pool of 2 referring (s0, s1) and 2 referred (t0, t1) instances created up front
OPS = [('relate', i, j) for i in range(2) for j in range(2)] + [('relate_ts', i, j) for i in range(2) for j in range(2)] + \
      [('unrelate', i, j) for i in range(2) for j in range(2)] + [('delete_s', i, 0) for i in range(2)] + [('delete_t', 0, j) for j in range(2)]
SEQS = list(itertools.product(range(len(OPS)), repeat=K))[PARAMS.get('shard', 0)::PARAMS.get('nshards', 1)]
NSEQ = len(SEQS)


def check(si: int) -> bool:
    """
    pre: 0 <= si < NSEQ
    post: POST(_)
    """
    global LAST_DIFF
    seq = [OPS[o] for o in SEQS[cs(si, 0, NSEQ - 1)]]
    with notrace():
        m = S.mk()
        pools = {k: [m.new(k) for _ in range(S.POOL)] for k in S.KINDS}
    R = set()
    live = {k: [True] * S.POOL for k in S.KINDS}
    for (op, i, j) in seq:
        s_inst, t_inst = pools[SK][i], pools[TK][j]
        exp_exc = None
        R2 = set(R)
        if op in ('relate', 'relate_ts', 'unrelate') and not (live[SK][i] and live[TK][j]):
            return None          # use of a deleted instance: outside the claim
        if op in ('relate', 'relate_ts'):
            if (i, j) not in R:
                if (not T_MANY and any(s == i for (s, t) in R)) or (not S_MANY and any(t == j for (s, t) in R)):
                    exp_exc = xtuml.RelateException
                else:
                    R2.add((i, j))
        elif op == 'unrelate':
            if (i, j) in R:
                R2.discard((i, j))
            else:
                exp_exc = xtuml.UnrelateException
        elif op == 'delete_s':
            if not live[SK][i]:
                exp_exc = xtuml.DeleteException
            else:
                live[SK][i] = False if SK != TK else live[SK][i]
                if SK == TK:
                    live[SK][i] = False
                R2 = {(s, t) for (s, t) in R2 if s != i and not (SK == TK and t == i)}
        elif op == 'delete_t':
            if not live[TK][j]:
                exp_exc = xtuml.DeleteException
            else:
                live[TK][j] = False
                R2 = {(s, t) for (s, t) in R2 if t != j and not (SK == TK and s == j)}
        got = None
        try:
            if op == 'relate':
                relate(s_inst, t_inst, REL, S_PHR)
            elif op == 'relate_ts':
                relate(t_inst, s_inst, REL, T_PHR)
            elif op == 'unrelate':
                unrelate(s_inst, t_inst, REL, S_PHR)
            elif op == 'delete_s':
                xtuml.delete(s_inst)
            elif op == 'delete_t':
                xtuml.delete(t_inst)
        except xtuml.MetaException as e:
            got = type(e)
        if got is not exp_exc:
            case('hist', S.SHAPE, seq)
            LAST_DIFF = ('exception', str(got), str(exp_exc), seq); return False
        if exp_exc is None:
            R = R2
        with notrace():
            obs = S.observe_nav(m, pools)
            exp = S.expected([R], live, pools, refs=False)
        if obs != exp:
            case('hist', S.SHAPE, seq)
            LAST_DIFF = ('state after step', (op, i, j), seq, obs, exp); return False
    case('hist', S.SHAPE, [list(x) for x in seq])
    return True
