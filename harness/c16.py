from engine_api import Cond

PROPERTY = 'C16'
LEVEL = 'other'
ASSUMPTIONS = [
    'the sorted class has mixed-case key letters (Node), one family of conditions uses C; one family builds and tears down another arrangement before the one being sorted',
    'arrangement = solver-chosen index into the table of ALL successor maps over n labelled instances (labels = creation order), so every partition into chains, every order within a chain and every creation order is one table entry',
    'order BETWEEN chains in the result is not constrained by the property and not checked; each chain must be contiguous, complete and in direction',
    'termination is observed with a fuel bound of 6n+10 calls of xtuml.meta.navigate_one (the sort makes at most 2 per member and step)',
    'subset mode (termination only): arbitrary partial injective successor maps, including several rings, and arbitrary non-empty subsets as the set to sort',
]


def conditions(tier, seed):
    t = 300 if tier == 'quick' else 3000
    out = [Cond('empty', 'c16_sort.py', {}, func='check_empty', timeout=60, bound='empty set, both phrases')]
    maxn = 6 if tier == 'quick' else 7
    for n in range(1, maxn + 1):
        shards = 1 if n < 5 else (4 if n == 5 else 16 if n == 6 else 64)
        for sh in range(shards):
            out.append(Cond('chains_n%d_s%d' % (n, sh), 'c16_sort.py', dict(n=n, mode='chains', shard=sh, nshards=shards),
                            timeout=t, bound='all arrangements of %d instances into chains (shard %d/%d), both phrases' % (n, sh, shards),
                            case_split=['ai', 'fwd'], twin=(sh == 0)))
        if n >= 2:
            out.append(Cond('ring_n%d' % n, 'c16_sort.py', dict(n=n, mode='ring'), timeout=t,
                            bound='all rings over %d instances, both phrases' % n, case_split=['ai', 'fwd']))
            for rot in range(1, min(n, 3)):
                out.append(Cond('ring_n%d_rot%d' % (n, rot), 'c16_sort.py', dict(n=n, mode='ring', rotate=rot), timeout=t,
                                bound='all rings over %d instances given as a query set rotated by %d (first member is not the first created instance)' % (n, rot),
                                case_split=['ai', 'fwd'], twin=False))
    for n in range(2, 5):
        out.append(Cond('chains_prehistory_n%d' % n, 'c16_sort.py', dict(n=n, mode='chains', prehistory=True, kind='C'), timeout=t,
                        bound='all arrangements of %d instances, built after a history (a long chain related and unrelated again; members linked on both sides to an instance deleted since; the query set built with a foreign last member that is removed before the real one is added), upper-case class name' % n,
                        case_split=['ai', 'fwd'], twin=False))
    for n in range(1, (4 if tier == 'quick' else 5) + 1):
        shards = 1 if n < 4 else (8 if n == 4 else 64)
        for sh in range(shards):
            out.append(Cond('subset_n%d_s%d' % (n, sh), 'c16_sort.py', dict(n=n, mode='subset', shard=sh, nshards=shards),
                            timeout=t, bound='all partial injective successor maps over %d instances x all non-empty subsets (shard %d/%d): termination' % (n, sh, shards),
                            case_split=['ai', 'fwd'], twin=(sh == 0)))
    return out
