"""C01 lexical lemmas (E2): direct z3 queries generated from the repository's current source.

Extracted from the source on every run (scratch copy of /repo's working tree):
  * the STRING entry of persist.serialize_value's transfer table:  "'%s'" % v.replace(A, B)
  * the STRING branch of load deserialize:                        value[1:-1].replace(A2, B2)
  * the format idioms of the other types ('%d', '%f', '"%s"' % uuid.UUID(int=v))
  * the token regexes of xtuml.load.ModelLoader (t_* docstrings) in definition order (PLY's
    master-regex order for function rules), the reserved words, and p_negative_value / p_identifier.
Queries (all must be unsat; sat = concrete string, replayed against the real functions):
  S1 round trip      unescape(strip(quote(escape(v)))) == v          for every string |v| <= N
  S2 token           quote(escape(v)) in L(t_STRING)
  S3 no longer match no prefix of quote(escape(v)).c longer than it is in L(t_STRING), c in , space LF
  S4 no early stop   a proper prefix in L(t_STRING) is always followed by a quote (greedy engine goes on)
  S5 first rule      no earlier token rule matches a prefix of quote(escape(v))
  T*  Ser(T) subset of Tok(T) for INTEGER, REAL, BOOLEAN, UNIQUE_ID (+ optional MINUS), no earlier
      rule steals a prefix, extent exact
  I*  identifier domain: [A-Za-z_]\\w* not starting with R<digit> is matched whole by t_ID and
      by no earlier rule
\\d and \\w are taken as their ASCII ranges (Python's are Unicode-wide): stated approximation.
"""
import ast
import json
import os
import re
import sys
import time

import z3

sys.path.insert(0, os.path.dirname(os.path.abspath(__file__)))
SCRATCH = os.environ['VERIF_SCRATCH']
PARAMS = json.loads(os.environ.get('VERIF_PARAMS', '{}'))
N = PARAMS.get('N', 4)
TIMEOUT = PARAMS.get('timeout_ms', 120000)

queries, violations, inconclusive, errors, samples = [], [], [], [], []


# ------------------------------------------------------------------ extraction from the source

def src(rel):
    with open(os.path.join(SCRATCH, rel)) as f:
        return f.read()


def extract_serialize():
    tree = ast.parse(src('xtuml/persist.py'))
    fn = [n for n in tree.body if isinstance(n, ast.FunctionDef) and n.name == 'serialize_value'][0]
    out = {}
    for node in ast.walk(fn):
        if isinstance(node, ast.Dict):
            for k, v in zip(node.keys, node.values):
                if isinstance(k, ast.Constant) and isinstance(v, ast.Lambda):
                    out[k.value] = v.body
    return out


def string_escape(body):
    """expect  CONST % v.replace(A, B)  -> (prefix, suffix, A, B)"""
    if not (isinstance(body, ast.BinOp) and isinstance(body.op, ast.Mod) and isinstance(body.left, ast.Constant)):
        return None
    fmt = body.left.value
    call = body.right
    if fmt.count('%s') != 1:
        return None
    pre, suf = fmt.split('%s')
    if isinstance(call, ast.Name):
        return pre, suf, None, None
    if not (isinstance(call, ast.Call) and isinstance(call.func, ast.Attribute) and call.func.attr == 'replace'
            and len(call.args) == 2 and all(isinstance(a, ast.Constant) for a in call.args)):
        return None
    return pre, suf, call.args[0].value, call.args[1].value


def extract_deserialize_string():
    tree = ast.parse(src('xtuml/load.py'))
    for fn in tree.body:
        if isinstance(fn, ast.FunctionDef) and fn.name in ('_deserialize_value', 'deserialize_value'):
            for node in ast.walk(fn):
                if isinstance(node, ast.If) and isinstance(node.test, ast.Compare) and \
                        isinstance(node.test.comparators[0], ast.Constant) and node.test.comparators[0].value == 'STRING':
                    ret = node.body[0]
                    if isinstance(ret, ast.Return):
                        v = ret.value
                        # value[1:-1].replace(A2, B2)   or   value[1:-1]
                        if isinstance(v, ast.Call) and isinstance(v.func, ast.Attribute) and v.func.attr == 'replace':
                            sl = v.func.value
                            a2, b2 = v.args[0].value, v.args[1].value
                        else:
                            sl, a2, b2 = v, None, None
                        if isinstance(sl, ast.Subscript) and isinstance(sl.slice, ast.Slice):
                            lo = ast.literal_eval(sl.slice.lower) if sl.slice.lower else 0
                            hi = ast.literal_eval(sl.slice.upper) if sl.slice.upper else 0
                            return lo, hi, a2, b2
    return None


def extract_tokens():
    tree = ast.parse(src('xtuml/load.py'))
    cls = [n for n in tree.body if isinstance(n, ast.ClassDef) and n.name == 'ModelLoader'][0]
    rules = []
    reserved = []
    productions = {}
    for n in cls.body:
        if isinstance(n, ast.FunctionDef) and n.name.startswith('t_') and n.name not in ('t_error',):
            doc = ast.get_docstring(n, clean=False)
            if doc is not None:
                rules.append((n.name[2:], doc, n.lineno))
        if isinstance(n, ast.FunctionDef) and n.name.startswith('p_'):
            productions[n.name] = ast.get_docstring(n) or ''
        if isinstance(n, ast.Assign) and isinstance(n.targets[0], ast.Name) and n.targets[0].id == 'reserved':
            reserved = [e.value for e in n.value.elts]
    rules.sort(key=lambda r: r[2])
    return rules, reserved, productions


# ------------------------------------------------------------------ python regex -> z3 regex

from c01_lex_re import to_z3, cat_re, rng, ANY, sc  # noqa

# ------------------------------------------------------------------ query helper

solver_time = [0.0]


def query(name, constraints, show=None, expect='unsat'):
    s = z3.Solver()
    s.set('timeout', TIMEOUT)
    s.add(*constraints)
    t = time.time()
    r = str(s.check())
    dt = time.time() - t
    solver_time[0] += dt
    rec = {'name': name, 'result': r, 'solver_s': round(dt, 2), 'expect': expect}
    model = None
    if r == 'sat':
        m = s.model()
        # validate the model against the assertions before believing it
        ok = all(z3.is_true(m.eval(c, model_completion=True)) for c in constraints)
        rec['model_validated'] = ok
        if show is not None:
            try:
                model = z3str(m.eval(show, model_completion=True))
                rec['witness'] = repr(model)
            except Exception as e:  # noqa
                rec['witness'] = 'unrenderable: %s' % e
        if not ok:
            r = rec['result'] = 'unknown'
    queries.append(rec)
    if r == 'unknown':
        inconclusive.append('%s: solver answered unknown / unvalidated model' % name)
    return r, model


def z3str(v):
    return v.as_string() if not hasattr(v, 'py_value') else v.py_value()


def unescape_z3(s):
    # z3 prints non-ascii as \u{..}
    return re.sub(r'\\u\{([0-9a-fA-F]+)\}', lambda m: chr(int(m.group(1), 16)), s)


# ------------------------------------------------------------------ lemmas

def string_lemmas(rules, order):
    ser_entries = extract_serialize()
    esc = string_escape(ser_entries.get('STRING'))
    des = extract_deserialize_string()
    if esc is None or des is None:
        inconclusive.append('string lemma: unrecognised source form of the STRING transfer / deserialize branch')
        return
    pre, suf, A, B = esc
    lo, hi, A2, B2 = des
    samples.append({'extracted': {'quote_prefix': pre, 'quote_suffix': suf, 'escape': [A, B],
                                  'strip': [lo, hi], 'unescape': [A2, B2]}})
    if A is not None and len(A) != 1:
        inconclusive.append('string lemma: escape pattern of length %d not supported by the encoding' % len(A))
        return
    E = z3.StringVal('')
    n = z3.Int('n')
    cs = [z3.String('c%d' % i) for i in range(N)]
    base = [n >= 0, n <= N] + [z3.Length(c) == 1 for c in cs]
    v = E
    for i in range(N):
        v = z3.Concat(v, z3.If(i < n, cs[i], E))
    inner = E
    for i in range(N):
        ci = cs[i] if A is None else z3.If(cs[i] == z3.StringVal(A), z3.StringVal(B), cs[i])
        inner = z3.Concat(inner, z3.If(i < n, ci, E))
    ser = z3.Concat(z3.StringVal(pre), inner, z3.StringVal(suf))
    body = z3.SubString(ser, lo, z3.Length(ser) - lo + hi)
    if A2 is None:
        out = body
    else:
        la = len(A2)
        maxlen = N * (len(B) if B else 1) + 2
        out = E
        pos = z3.IntVal(0)
        for k in range(maxlen):
            win = z3.SubString(body, pos, la)
            one = z3.SubString(body, pos, 1)
            live = pos < z3.Length(body)
            hit = z3.And(live, win == z3.StringVal(A2))
            out = z3.Concat(out, z3.If(hit, z3.StringVal(B2), z3.If(live, one, E)))
            pos = z3.If(hit, pos + la, z3.If(live, pos + 1, pos))

    def replay_string(model_v):
        """run the real serialize / lexer / deserialize on the solver's string"""
        sys.path.insert(0, SCRATCH)
        import xtuml
        val = unescape_z3(model_v)
        text = "CREATE TABLE T (s STRING, i INTEGER);\nINSERT INTO T VALUES (%s, 1);\n" % xtuml.serialize_value(val, 'STRING')
        try:
            l = xtuml.ModelLoader(); l.input(text)
            m = l.build_metamodel()
            got = m.select_any('T').s
            return got == val, repr(got)
        except Exception as e:  # noqa
            return False, '%s: %s' % (type(e).__name__, e)

    def handle(name, r, model_v, what):
        if r != 'sat':
            return
        ok, got = replay_string(model_v)
        if not ok:
            violations.append({'what': '%s: string %r does not survive serialize -> load (%s)' % (what, unescape_z3(model_v), got),
                               'lemma': name, 'value': unescape_z3(model_v), 'got': got})
        else:
            errors.append('%s: solver model %r does not reproduce against the real code (encoding error)' % (name, model_v))

    r, mv = query('S1 string round trip |v|<=%d' % N, base + [out != v], show=v)
    handle('S1', r, mv, 'round trip')
    tok = dict((nme, to_z3(rx)) for nme, rx, _ in rules)
    if 'STRING' not in tok:
        inconclusive.append('no t_STRING rule found')
        return
    TS = tok['STRING']
    r, mv = query('S2 serialized string is a STRING token', base + [z3.Not(z3.InRe(ser, TS))], show=v)
    handle('S2', r, mv, 'token language')
    j = z3.Int('j')
    for f in [',', ' ', '\n']:
        ext = z3.Concat(ser, z3.StringVal(f))
        r, mv = query('S3 no longer STRING match before %r' % f,
                      base + [j > z3.Length(ser), j <= z3.Length(ext), z3.InRe(z3.SubString(ext, 0, j), TS)], show=v)
        handle('S3', r, mv, 'token extent')
    r, mv = query('S4 greedy engine does not stop early',
                  base + [j > 0, j < z3.Length(ser), z3.InRe(z3.SubString(ser, 0, j), TS),
                          z3.SubString(ser, j, 1) != z3.StringVal(suf[-1:] if suf else "'")], show=v)
    handle('S4', r, mv, 'token extent (early stop)')
    for nme in order:
        if nme == 'STRING':
            break
        r, mv = query('S5 rule %s does not match a prefix of a serialized string' % nme,
                      base + [j > 0, j <= z3.Length(ser), z3.InRe(z3.SubString(ser, 0, j), tok[nme])], show=v)
        handle('S5', r, mv, 'earlier token rule %s' % nme)
    # witness (vacuity guard): some non-trivial string with a quote satisfies the encoding
    r, _ = query('S0 witness: a string containing the escaped character exists', base + [n == N] + (
        [cs[0] == z3.StringVal(A)] if A else []) + [out == v], show=v, expect='sat')
    if r != 'sat':
        errors.append('S0 witness query not sat: encoding is vacuous')


def scalar_lemmas(rules, order, productions):
    tok = dict((nme, to_z3(rx)) for nme, rx, _ in rules)
    ser_entries = extract_serialize()
    D = rng(48, 57)
    H = z3.Union(rng(48, 57), rng(97, 102))
    lang = {}
    idiom = {}
    for ty, body in ser_entries.items():
        srcs = ast.unparse(body)
        idiom[ty] = srcs
        if srcs in ("'%d' % v", "'%d' % int(v)"):
            nonneg = z3.Union(z3.Re('0'), z3.Concat(rng(49, 57), z3.Star(D)))
            lang[ty] = ('int', nonneg if 'int(v)' not in srcs else z3.Union(z3.Re('0'), z3.Re('1')))
        elif srcs == "'%f' % v":
            lang[ty] = ('real', z3.Concat(z3.Union(z3.Re('0'), z3.Concat(rng(49, 57), z3.Star(D))), z3.Re('.'), z3.Loop(D, 6, 6)))
        elif srcs == "'\"%s\"' % uuid.UUID(int=v)":
            g = z3.Concat(z3.Re('"'), z3.Loop(H, 8, 8), z3.Re('-'), z3.Loop(H, 4, 4), z3.Re('-'), z3.Loop(H, 4, 4), z3.Re('-'),
                          z3.Loop(H, 4, 4), z3.Re('-'), z3.Loop(H, 12, 12), z3.Re('"'))
            lang[ty] = ('guid', g)
        elif ty == 'STRING':
            continue
        else:
            inconclusive.append('T lemma %s: unrecognised format idiom %s' % (ty, srcs))
    samples.append({'format_idioms': idiom})
    neg_ok = 'MINUS NUMBER' in productions.get('p_negative_value', '') and 'MINUS FRACTION' in productions.get('p_negative_value', '')
    vals = productions.get('p_value', '')
    s = z3.String('s')
    j = z3.Int('j')
    want = {'int': 'NUMBER', 'real': 'FRACTION', 'guid': 'GUID'}
    for ty, (kind, L) in sorted(lang.items()):
        tname = want[kind]
        if tname not in tok or tname not in vals:
            violations.append({'what': 'value token %s is not defined / not accepted by p_value' % tname, 'lemma': 'T0'})
            continue
        if kind in ('int', 'real') and not neg_ok and ty != 'BOOLEAN':
            violations.append({'what': 'negative numbers are not accepted (p_negative_value)', 'lemma': 'T0'})
        bound = [z3.Length(s) <= 48]
        r, mv = query('T1 Ser(%s) subset of L(t_%s)' % (ty, tname), bound + [z3.InRe(s, L), z3.Not(z3.InRe(s, tok[tname]))], show=s)
        scalar_handle(ty, r, mv, 'not a %s token' % tname)
        for f in [',', ' ', '\n']:
            ext = z3.Concat(s, z3.StringVal(f))
            r, mv = query('T2 %s: %s token does not extend over %r' % (ty, tname, f),
                          bound + [z3.InRe(s, L), z3.InRe(ext, tok[tname])], show=s)
            scalar_handle(ty, r, mv, 'token extends past the value')
        for nme in order:
            if nme == tname:
                break
            r, mv = query('T3 %s: earlier rule %s matches no prefix' % (ty, nme),
                          bound + [z3.InRe(s, L), j > 0, j <= z3.Length(s) + 1,
                                   z3.InRe(z3.SubString(z3.Concat(s, z3.StringVal(',')), 0, j), tok[nme])], show=s)
            scalar_handle(ty, r, mv, 'earlier rule %s takes a prefix' % nme)
        if kind == 'guid':
            r, mv = query('T4 %s: lazy GUID rule does not stop early' % ty,
                          bound + [z3.InRe(s, L), j > 0, j < z3.Length(s), z3.InRe(z3.SubString(s, 0, j), tok[tname])], show=s)
            scalar_handle(ty, r, mv, 'GUID token ends early')
        r, _ = query('T0 witness %s' % ty, [z3.InRe(s, L), z3.Length(s) >= 1], show=s, expect='sat')
        if r != 'sat':
            errors.append('T0 witness for %s not sat' % ty)


def scalar_handle(ty, r, model_v, what):
    if r != 'sat':
        return
    sys.path.insert(0, SCRATCH)
    import xtuml
    text_val = unescape_z3(model_v)
    col = {'BOOLEAN': 'BOOLEAN', 'INTEGER': 'INTEGER', 'REAL': 'REAL', 'UNIQUE_ID': 'UNIQUE_ID'}[ty]
    text = 'CREATE TABLE T (x %s, i INTEGER);\nINSERT INTO T VALUES (%s, 1);\n' % (col, text_val)
    try:
        l = xtuml.ModelLoader(); l.input(text)
        m = l.build_metamodel()
        got = m.select_any('T').x
        back = xtuml.serialize_value(got, col)
        ok = back == text_val
    except Exception as e:  # noqa
        ok, back = False, '%s: %s' % (type(e).__name__, e)
    if not ok:
        violations.append({'what': 'serialized %s value %r does not load back (%s): %s' % (ty, text_val, what, back),
                           'lemma': 'T', 'value': text_val})
    else:
        errors.append('T lemma (%s, %s): solver model %r reproduces fine against the real code (encoding error)' % (ty, what, model_v))


def identifier_lemmas(rules, order, reserved, productions):
    tok = dict((nme, to_z3(rx)) for nme, rx, _ in rules)
    if 'ID' not in tok:
        inconclusive.append('no t_ID rule')
        return
    s = z3.String('s')
    j = z3.Int('j')
    W = cat_re(sc.CATEGORY_WORD)
    ident = z3.Concat(z3.Union(rng(65, 90), rng(97, 122), z3.Re('_')), z3.Star(W))
    dom = [z3.InRe(s, ident), z3.Length(s) <= 12,
           z3.Not(z3.InRe(s, z3.Concat(z3.Re('R'), rng(48, 57), z3.Star(ANY))))]
    r, mv = query('I1 identifier is an ID token', dom + [z3.Not(z3.InRe(s, tok['ID']))], show=s)
    ident_handle(r, mv)
    for f in [' ', ',', '(', ')', ';', '\n']:
        r, mv = query('I2 ID token does not extend over %r' % f, dom + [z3.InRe(z3.Concat(s, z3.StringVal(f)), tok['ID'])], show=s)
        ident_handle(r, mv)
    for nme in order:
        if nme == 'ID':
            break
        r, mv = query('I3 earlier rule %s matches no prefix of an identifier' % nme,
                      dom + [j > 0, j <= z3.Length(s), z3.InRe(z3.SubString(s, 0, j), tok[nme])], show=s)
        ident_handle(r, mv)
    # reserved words usable as identifiers are listed in p_identifier
    pid = productions.get('p_identifier', '')
    listed = set(re.findall(r'[A-Z_]+', pid))
    missing = [w for w in reserved if w not in listed]
    queries.append({'name': 'I4 reserved words accepted as identifiers', 'result': 'unsat' if not missing else 'sat',
                    'solver_s': 0, 'missing': missing})
    if missing:
        violations.append({'what': 'reserved word(s) %s cannot be used as identifier (p_identifier)' % missing, 'lemma': 'I4'})
    r, _ = query('I0 witness identifier', dom + [z3.Length(s) >= 2], show=s, expect='sat')
    if r != 'sat':
        errors.append('I0 witness not sat')


def ident_handle(r, model_v):
    if r != 'sat':
        return
    sys.path.insert(0, SCRATCH)
    import xtuml
    name = unescape_z3(model_v)
    text = 'CREATE TABLE %s (%s INTEGER);\nINSERT INTO %s VALUES (1);\n' % (name, name, name)
    try:
        l = xtuml.ModelLoader(); l.input(text)
        m = l.build_metamodel()
        ok = getattr(m.select_any(name), name) == 1
    except Exception as e:  # noqa
        ok = False
    if not ok:
        violations.append({'what': 'identifier %r in the stated domain is not lexed as one identifier' % name, 'lemma': 'I', 'value': name})
    else:
        errors.append('I lemma: solver model %r loads fine (encoding error)' % name)


def main():
    t0 = time.time()
    rules, reserved, productions = extract_tokens()
    order = [nme for nme, _, _ in rules]
    samples.append({'token_rule_order': order})
    which = PARAMS.get('part', 'all')
    try:
        if which in ('all', 'string'):
            string_lemmas(rules, order)
        if which in ('all', 'scalar'):
            scalar_lemmas(rules, order, productions)
        if which in ('all', 'ident'):
            identifier_lemmas(rules, order, reserved, productions)
    except Exception as e:  # noqa
        import traceback
        errors.append('lemma generation failed: %s' % traceback.format_exc()[-800:])
    verdict = 'confirmed'
    if violations:
        verdict = 'counterexample'
    elif errors or inconclusive:
        verdict = 'inconclusive'
    res = dict(verdict=verdict, queries=queries, violations=violations, inconclusive=inconclusive, errors=errors,
               samples=samples, solver_s=round(solver_time[0], 1), wall_s=round(time.time() - t0, 1),
               functions_encoded=['xtuml/persist.py:serialize_value (STRING/INTEGER/REAL/BOOLEAN/UNIQUE_ID transfer lambdas)',
                                  'xtuml/load.py:_deserialize_value (STRING branch)',
                                  'xtuml/load.py:ModelLoader.t_* token regexes, reserved, p_value, p_negative_value, p_identifier'])
    with open(os.environ['VERIF_RESULT'], 'w') as f:
        json.dump(res, f)
    print(json.dumps({k: res[k] for k in ('verdict', 'violations', 'inconclusive', 'errors')}, indent=1)[:3000])


main()
