"""C12: loading fails only in documented ways and never half-applies input.
build phase: statement objects from small pools (class/attribute/type names, key lists, value tokens
of every lexical class in every typed column) are fed to the real populate_* code under the tracer;
only ParsingException / MetaException may escape.  input(): sequences of accepted and rejected
texts (real PLY parser, untraced) and a nondeterministic parser stub (contract: returns a fresh
statement list or raises ParsingException)."""
import itertools
import xtuml
import xtuml.load as L
from hlib import POST, PARAMS, cs, case, known, notrace, stub_str

stub_str()
LAST_DIFF = None

TYPES = ['BOOLEAN', 'INTEGER', 'REAL', 'STRING', 'UNIQUE_ID', 'unique_id', 'blob']
TOKENS = ["''", "'a'", "'1'", "'it''s'", "'TRUE'", '""', '"x"', '"00000000-0000-0000-0000-000000000001"',
          '"1"', '"not-a-uuid-but-36-characters-long!!!"', '0', '7', '007', '99999999999999999999999999999999999999999',
          '1.5', '0.0', '-1', '-2.5', 'TRUE', 'false', 'True']
NT, NK = len(TYPES), len(TOKENS)
ALLOWED = (L.ParsingException, xtuml.MetaException)


def stmt(s):
    s.filename = '<harness>'; s.lineno = 1; s.offset = 0
    return s


LOADER = None


def fresh_loader():
    global LOADER
    with notrace():
        if LOADER is None:
            LOADER = xtuml.ModelLoader()
        LOADER.statements = []
    return LOADER


def check_arity(nn: int, nv: int, na: int, dup: bool) -> bool:
    """
    pre: 0 <= nn <= 3 and 0 <= nv <= 3 and 1 <= na <= 2
    post: POST(_)
    """
    # INSERT statements whose number of names / values / declared attributes disagree, names repeated
    global LAST_DIFF
    nn = cs(nn, 0, 3); nv = cs(nv, 0, 3); na = cs(na, 1, 2)
    dup = True if dup else False
    names = (['x', 'x', 'y'] if dup else ['x', 'y', 'z'])[:nn]
    ld = fresh_loader()
    ld.statements = [stmt(L.CreateClassStmt('A', [('x', 'INTEGER'), ('y', 'INTEGER')][:na])),
                     stmt(L.CreateClassStmt('Z', [('k', 'INTEGER')])),
                     # the LAST attribute of A is referential
                     stmt(L.CreateAssociationStmt('R1', 'A', 'MC', [['x', 'y'][na - 1]], '', 'Z', '1C', ['k'], '')),
                     stmt(L.CreateInstanceStmt('Z', ['1'], None)),
                     stmt(L.CreateInstanceStmt('A', ['1', '2', '3'][:nv], names if nn else None))]
    try:
        ld.build_metamodel()
    except ALLOWED:
        pass
    except Exception as e:
        case('arity', nn, nv, na, dup)
        if isinstance(e, IndexError) and known('C12/named-insert-arity-indexerror'):
            return None
        LAST_DIFF = ('undocumented exception from build_metamodel', type(e).__name__, str(e)[:100], names, nv, na); return False
    case('arity', nn, nv, na, dup)
    return True


def check_value(ti: int, ki: int, named: bool, t2: int, k2: int) -> bool:
    """
    pre: 0 <= ti < NT and 0 <= ki < NK and 0 <= t2 < NT and 0 <= k2 < NK
    pre: (t2 == 0 and k2 == 0) or (ti == 4 and ki == 7)
    post: POST(_)
    """
    # one (two) typed column(s), one row, value token of any lexical class
    global LAST_DIFF
    ti = cs(ti, 0, NT - 1); ki = cs(ki, 0, NK - 1); t2 = cs(t2, 0, NT - 1); k2 = cs(k2, 0, NK - 1)
    named = True if named else False
    ld = fresh_loader()
    ld.statements = [stmt(L.CreateClassStmt('A', [('x', TYPES[ti]), ('y', TYPES[t2])])),
                     stmt(L.CreateInstanceStmt('A', [TOKENS[ki], TOKENS[k2]], ['x', 'y'] if named else None))]
    exc = None
    try:
        m = ld.build_metamodel()
    except ALLOWED:
        exc = 'documented'
    except Exception as e:
        case('value', TYPES[ti], TOKENS[ki], named, TYPES[t2], TOKENS[k2])
        key = 'C12/deserialize-valueerror'
        if isinstance(e, ValueError) and known(key):
            return None
        LAST_DIFF = ('undocumented exception from build_metamodel', type(e).__name__, str(e)[:100],
                     TYPES[ti], TOKENS[ki], TYPES[t2], TOKENS[k2])
        return False
    case('value', TYPES[ti], TOKENS[ki], named, TYPES[t2], TOKENS[k2])
    return True


NAMES = ['Id', 'x', 'y', 'nope']
KINDS = ['A', 'B', 'Z']
ROPS = list(itertools.product(range(3), range(3), range(4), range(4), range(2)))   # skind, tkind, skey, tkey, rows
NR = len(ROPS)


def check_schema(ri: int, ui: int) -> bool:
    """
    pre: 0 <= ri < NR and 0 <= ui < 12
    post: POST(_)
    """
    # associations / identifiers naming undefined classes or attributes, with and without rows
    global LAST_DIFF
    sk, tk, skey, tkey, rows = ROPS[cs(ri, 0, NR - 1)]
    ui = cs(ui, 0, 11)
    ld = fresh_loader()
    st = [stmt(L.CreateClassStmt('A', [('Id', 'UNIQUE_ID'), ('x', 'INTEGER')])),
          stmt(L.CreateClassStmt('B', [('Id', 'UNIQUE_ID'), ('y', 'UNIQUE_ID')])),       # x only in A, y only in B
          stmt(L.CreateAssociationStmt('R1', KINDS[sk], 'MC', [NAMES[skey]], '', KINDS[tk], '1', [NAMES[tkey]], '')),
          stmt(L.CreateUniqueStmt(KINDS[ui % 3], 'I1', [NAMES[ui // 3]]))]
    if rows:
        st += [stmt(L.CreateInstanceStmt('A', ['"00000000-0000-0000-0000-000000000001"', '1'], None)),
               stmt(L.CreateInstanceStmt('B', ['"00000000-0000-0000-0000-000000000002"',
                                               '"00000000-0000-0000-0000-000000000001"'], None))]
    ld.statements = st
    try:
        m = ld.build_metamodel()
    except ALLOWED:
        pass
    except Exception as e:
        case('schema', sk, tk, skey, tkey, rows, ui)
        key = 'C12/missing-key-attribute-attributeerror'
        if isinstance(e, AttributeError) and known(key):
            return None
        LAST_DIFF = ('undocumented exception from build_metamodel', type(e).__name__, str(e)[:100],
                     KINDS[sk], NAMES[skey], KINDS[tk], NAMES[tkey], rows)
        return False
    case('schema', sk, tk, skey, tkey, rows, ui)
    return True


KEYTYPES = ['UNIQUE_ID', 'INTEGER', 'STRING', 'REAL', 'BOOLEAN', 'unique_id', 'Sometype', 'inst_ref<A>', 'date', 'void', '']
KEYVALS = ['"00000000-0000-0000-0000-000000000001"', '1', "'s'", '1.5', 'true', "''", '-1']


def check_keytype(ti: int, tj: int, vi: int, named: bool) -> bool:
    """
    pre: 0 <= ti < len(KEYTYPES) and 0 <= tj < len(KEYTYPES) and 0 <= vi < len(KEYVALS)
    post: POST(_)
    """
    # the REFERRING / REFERRED key attributes of an association declared with known, oddly spelled and unknown
    # type names, rows present: whatever the loader thinks of it, only the documented exceptions escape
    global LAST_DIFF
    ti = cs(ti, 0, len(KEYTYPES) - 1); tj = cs(tj, 0, len(KEYTYPES) - 1); vi = cs(vi, 0, len(KEYVALS) - 1); named = True if named else False
    ld = fresh_loader()
    ld.statements = [
        stmt(L.CreateClassStmt('A', [('Id', KEYTYPES[tj]), ('x', 'INTEGER')])),
        stmt(L.CreateClassStmt('B', [('Id', 'UNIQUE_ID'), ('y', KEYTYPES[ti])])),
        stmt(L.CreateAssociationStmt('R1', 'B', 'MC', ['y'], '', 'A', '1', ['Id'], '')),
        stmt(L.CreateInstanceStmt('A', [KEYVALS[vi], '1'], ['Id', 'x'] if named else None)),
        stmt(L.CreateInstanceStmt('B', ['"00000000-0000-0000-0000-000000000002"', KEYVALS[vi]], ['Id', 'y'] if named else None))]
    try:
        ld.build_metamodel()
    except ALLOWED:
        pass
    except Exception as e:
        case('keytype', ti, tj, vi, named)
        LAST_DIFF = ('undocumented exception from build_metamodel', type(e).__name__, str(e)[:100], KEYTYPES[ti], KEYTYPES[tj], KEYVALS[vi])
        return False
    case('keytype', ti, tj, vi, named)
    return True


TEXTS = [
    ('ok', "CREATE TABLE A (Id UNIQUE_ID, x INTEGER);\nINSERT INTO A VALUES (1, 5);\n"),
    ('ok', "INSERT INTO A VALUES (2, 6);\n"),
    ('ok', ""),
    ('ok', "-- only a comment\n"),
    ('bad', "INSERT INTO A VALUES (3, 7);\nINSERT INTO A VALUES (4, 8)\nINSERT INTO A VALUES (5, 9);\n"),   # missing ;
    ('bad', "INSERT INTO A VALUES (3, 7);\nINSERT INTO A VALUES (4, $);\n"),                                     # illegal char
    ('bad', "INSERT INTO A VALUES (3, 7);\nCREATE ROP REF_ID R1 FROM 2 A (x) TO 1 A (Id);\n"),                   # bad cardinality
    ('bad', "INSERT INTO A VALUES (3, 7);\nCREATE ROP REF_ID R1 FROM X A (x) TO 1 A (Id);\n"),
    ('bad', "INSERT INTO A VALUES (3, 7); INSERT INTO A VALUES (3, 'unterminated);\n"),
    ('bad', "INSERT INTO A VALUES (3, 7);\nCREATE TABLE"),
    ('ok', "CREATE TABLE Y (q INTEGER);\nINSERT INTO Y VALUES ();\n"),
    ('bad', "INSERT INTO Y VALUES (, 7) garbage $\n"),
    ('bad', "INSERT INTO Y (q) VALUES (, 8);\nINSERT INTO Y VALUES (9) (\n"),
    # complete statements of every kind in front of the error: nothing the parser noted about them may survive the rejection
    ('bad', "CREATE TABLE Y (q INTEGER);\nCREATE TABLE W (Id UNIQUE_ID, A_Id UNIQUE_ID);\nCREATE UNIQUE INDEX I1 ON W (Id);\nCREATE ROP REF_ID R7 FROM MC W (A_Id) TO 1 A (Id);\n$\n"),
    ('ok', "CREATE TABLE W (Id UNIQUE_ID, A_Id UNIQUE_ID);\nCREATE UNIQUE INDEX I1 ON W (Id);\nCREATE ROP REF_ID R7 FROM MC W (A_Id) TO 1 A (Id);\nINSERT INTO W VALUES (1, 1);\n"),
]
NTX = len(TEXTS)


def stmt_content(stmts):
    """deep, value-based picture of the accumulated statements"""
    def fz(v):
        if isinstance(v, (list, tuple)):
            return tuple(fz(x) for x in v)
        return v
    return [(type(st).__name__,) + tuple(sorted((k, fz(v)) for k, v in vars(st).items())) for st in stmts]


SEQ3 = [(a, b, c) for a in range(NTX) for b in range(NTX) for c in range(NTX)][PARAMS.get('shard', 0)::PARAMS.get('nshards', 1)]
NSEQ3 = len(SEQ3)


def check_input_seq(si: int) -> bool:
    """
    pre: 0 <= si < NSEQ3
    post: POST(_)
    """
    # three input() calls with accepted / rejected texts on ONE loader; afterwards the loader
    # builds exactly what a fresh loader builds from the accepted texts alone
    global LAST_DIFF
    seq = list(SEQ3[cs(si, 0, NSEQ3 - 1)])
    with notrace():
        ld = xtuml.ModelLoader()
        ref = xtuml.ModelLoader()
    accepted = []
    for k in seq:
        kind, text = TEXTS[k]
        before = list(ld.statements)
        before_content = stmt_content(ld.statements)
        try:
            snap = xtuml.serialize(ld.build_metamodel())
        except ALLOWED:
            snap = None
        exc = None
        try:
            with notrace():
                ld.input(text)
        except L.ParsingException:
            exc = 'parsing'
        except Exception as e:
            case('input', seq)
            LAST_DIFF = ('undocumented exception from input()', type(e).__name__, text); return False
        if (exc is None) != (kind == 'ok'):
            case('input', seq)
            LAST_DIFF = ('harness: text classified wrongly', kind, exc, text); return False
        if exc is not None:
            if len(ld.statements) != len(before) or any(x is not y for x, y in zip(ld.statements, before)):
                case('input', seq)
                LAST_DIFF = ('rejected input changed the loader', text, len(before), len(ld.statements)); return False
            if stmt_content(ld.statements) != before_content:
                case('input', seq)
                LAST_DIFF = ('rejected input changed the content of an accumulated statement', text, before_content, stmt_content(ld.statements)); return False
            try:
                snap2 = xtuml.serialize(ld.build_metamodel())
            except ALLOWED:
                snap2 = None
            if snap2 != snap:
                case('input', seq)
                LAST_DIFF = ('a build after the rejected input differs from the build before it', text, snap, snap2); return False
        else:
            accepted.append(text)
    case('input', seq)
    with notrace():
        for t in accepted:
            ref.input(t)
    # the accumulated statements (kinds, values, recorded line numbers and offsets) are those of the accepted texts alone
    if stmt_content(ld.statements) != stmt_content(ref.statements):
        LAST_DIFF = ('accumulated statements differ from those of a fresh loader fed only the accepted texts (content / recorded positions)', seq); return False
    outcome = []
    for loader in (ld, ref):
        try:
            outcome.append(('built', xtuml.serialize(loader.build_metamodel())))
        except ALLOWED as e:
            outcome.append(('raised', type(e).__name__, str(e)))
    if outcome[0] != outcome[1]:
        LAST_DIFF = ('build after rejected inputs differs (model or diagnostic)', seq, outcome[0], outcome[1]); return False
    return True


class StubParser(object):
    """nondeterministic stub for the PLY parser: its contract is 'returns a fresh list of
    statements or raises ParsingException'"""
    def __init__(self, outcomes):
        self.outcomes = list(outcomes)
        self.produced = []

    def parse(self, lexer=None, input=None, tracking=0):
        o = self.outcomes.pop(0)
        if o < 0:
            raise L.ParsingException('stub')
        lst = [stmt(L.CreateClassStmt('C%d_%d' % (len(self.produced), i), [])) for i in range(o)]
        self.produced.append(lst)
        return lst


def check_input_stub(o1: int, o2: int, o3: int) -> bool:
    """
    pre: -1 <= o1 <= 2 and -1 <= o2 <= 2 and -1 <= o3 <= 2
    post: POST(_)
    """
    global LAST_DIFF
    outs = [cs(o1, -1, 2), cs(o2, -1, 2), cs(o3, -1, 2)]
    with notrace():
        ld = xtuml.ModelLoader()
    stub = StubParser(outs)
    ld.parser = stub
    expect = []
    for n, o in enumerate(outs):
        try:
            ld.input('text %d' % n)
            if o < 0:
                LAST_DIFF = ('exception swallowed',); return False
            expect.extend(stub.produced[-1])
        except L.ParsingException:
            if o >= 0:
                LAST_DIFF = ('unexpected exception',); return False
        if len(ld.statements) != len(expect) or any(x is not y for x, y in zip(ld.statements, expect)):
            case('stub', outs)
            LAST_DIFF = ('statements differ from the concatenation of accepted lists', outs, n); return False
    case('stub', outs)
    return True
