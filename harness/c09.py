from engine_api import Cond

PROPERTY = 'C09'
LEVEL = 'other'
ASSUMPTIONS = [
    'query harness: 3 instances (4 thorough) with symbolic unbounded x, y, boolean b and a referential attribute; at most one deleted instance; operator sequences of length <= 2 (3 thorough)',
    'stable descending order = ties keep creation order (what sorted(reverse=True) does and the statement says: stably sorted, descending)',
    'navigation harness: pools of 2-3 instances per class; link state = solver-chosen index into the table of valid link matrices; links installed with relate() in a fixed order that the oracle knows',
]
NOPS = 11


def conditions(tier, seed):
    t = 300 if tier == 'quick' else 3000
    out = []
    plans = [(3, 2)] if tier == 'quick' else [(4, 2), (3, 3)]
    for ni, ln in plans:
        tag = '' if tier == 'quick' else '_n%d_l%d' % (ni, ln)
        out.append(Cond('query_eq_ref_all_links' + tag, 'c09_query.py', dict(ni=ni, len=1, first=8, plfree=True), timeout=t,
                        bound='where_eq on the referential attribute, every subset of linked instances, every deleted instance',
                        symbolic=['x*, y*, b*, pv, k1'], case_split=['dead', 'pl'], twin=False))
        out.append(Cond('query_len0' + tag, 'c09_query.py', dict(ni=ni, len=0, first=0, plfree=True), timeout=t,
                        bound='no operator', symbolic=['x*, y*, b*, pv'], case_split=['dead', 'pl']))
        for f in range(NOPS):
            heavy = tier != 'quick' and f in (4, 5, 6, 7)     # the sorting operators first: split the cell four ways
            for part in (range(4) if heavy else [None]):
              out.append(Cond('query_first%d%s%s' % (f, tag, '' if part is None else '_p%d' % part), 'c09_query.py',
                            dict(ni=ni, len=ln, first=f) if part is None else dict(ni=ni, len=ln, first=f, part=part, nparts=4), timeout=t,
                            bound='%d instances, operator sequences of length 1..%d starting with operator %d' % (ni, ln, f),
                            symbolic=['x0..x3', 'y0..y3', 'b0..b3', 'k1', 'k2', 'thr', 'pv (all unbounded)'],
                            case_split=['si (operator sequence)', 'dead in {none, second instance}'],
                            twin=(f in (0, 4) and part in (None, 0))))
    templates = ['a_B', 'b_A', 'setA_B', 'genA_B', 'listB_A', 'a_B_succ', 'b_prec_prec', 'b_succ', 'a_B_succ_A_B',
                 'a_D', 'd_A', 'a_L_D', 'l_A', 'setA_D_A', 'subtype', 'hetero_XY_A', 'hetero_YX_A', 'filter_gt', 'filter_eq', 'filter_order',
                 'none', 'invalid']
    for tpl in templates:
        out.append(Cond('nav_' + tpl, 'c09_nav.py', dict(template=tpl), timeout=t,
                        bound='chain template %s over every valid link state of the associations it crosses '
                              '(A:2, B:3, D:2, L:2, X:1, Y:1 instances), every start instance' % tpl,
                        symbolic=['v0..v2 (B.v)', 'thr'] if tpl.startswith('filter') else [],
                        case_split=['si (link state)', 'i (start instance)'],
                        twin=(tpl in ('a_B', 'a_D', 'subtype', 'filter_gt'))))
    for tpl in ('a_B', 'setA_B', 'a_B_succ', 'filter_order'):
        out.append(Cond('nav_rerelate_' + tpl, 'c09_nav.py', dict(template=tpl, rerelate=1), timeout=t,
                        bound='chain template %s over every valid link state, every R1 link unrelated and related again right after it was made (same links, same order)' % tpl,
                        symbolic=['v0..v2 (B.v)', 'thr'] if tpl.startswith('filter') else [],
                        case_split=['si (link state)', 'i (start instance)'], twin=False))
    return out
