"""C15: callable model elements (functions, bridges, class / instance operations, derived attributes)
behave as their OAL bodies specify.  The BridgePoint fixture model is loaded outside the tracer; the
bodies of its functions / operations / derived attribute (and of one user EE added through the API)
are overwritten with the call graph of the condition BEFORE mk_component; the entry function is then
invoked from Python with SYMBOLIC arguments and runs traced (nested oal.parse calls run untraced).
Oracle: the oalgen reference evaluator extended with call frames."""
import os
import xtuml
import bridgepoint
from bridgepoint import ooaofooa, oal, interpret
from xtuml import navigate_many as many, navigate_one as one
from hlib import POST, PARAMS, cs, case, known, notrace, stub_str, tracing
import oalgen
from oalprogs import I, V, P, A, SEL, T, F, B, U, let, seta, IF, WH, FE, RET, inc

stub_str()
LAST_DIFF = None
GRAPH = PARAMS.get('graph', 'fn_fn')
FIXTURE = os.path.join(os.environ.get('VERIF_ROOT', '/verif'), 'fixtures', 'interp_model.xtuml')
oalgen.ATTRS['Class'] = ['val']
oalgen.DEFAULTS['val'] = 0


def call(kind, target, name, **args):
    return ('call', kind, target, name, sorted(args.items()))


FN = lambda name, **a: call('function', None, name, **a)
SELF = ('self',)

# every graph: dict element -> body (mini-AST); elements: ('function', name) ('class', op) ('instance', op)
# ('bridge', name) ('derived',)   entry = function F1 with parameters a, b (symbolic ints), n (0..4), f (bool)
GRAPHS = {
    'fn_fn': {('function', 'F1'): [RET(B('*', FN('F2', x=B('+', P('a'), I(1))), P('b')))],
              ('function', 'F2'): [RET(B('-', P('x'), I(3)))]},
    'depth3_scopes': {('function', 'F1'): [let('x', I(5)), let('y', FN('F2', x=P('a'))), RET(B('+', B('*', V('x'), I(1000)), V('y')))],
                      ('function', 'F2'): [let('x', B('+', P('x'), I(1))), let('y', I(77)), let('z', FN('F3', x=V('x'), y=P('x'))),
                                           RET(B('+', V('x'), V('z')))],
                      ('function', 'F3'): [let('x', I(0)), RET(B('-', P('x'), P('y')))]},
    'recursion': {('function', 'F1'): [RET(FN('F2', x=P('n'), acc=P('a')))],
                  ('function', 'F2'): [IF(B('<=', P('x'), I(0)), [RET(P('acc'))]),
                                       let('t', B('+', P('acc'), P('x'))),
                                       let('r', FN('F2', x=B('-', P('x'), I(1)), acc=V('t'))), RET(B('+', V('r'), V('t')))]},
    'mutual': {('function', 'F1'): [IF(FN('F2', x=P('n')), [RET(P('a'))]), RET(P('b'))],
               ('function', 'F2'): [IF(B('==', P('x'), I(0)), [RET(T)]), RET(FN('F3', x=B('-', P('x'), I(1))))],
               ('function', 'F3'): [IF(B('==', P('x'), I(0)), [RET(F)]), RET(FN('F2', x=B('-', P('x'), I(1))))]},
    'permuted_names': {('function', 'F1'): [RET(B('-', FN('F3', y=P('a'), x=P('b')), FN('F3', x=P('a'), y=P('b'))))],
                       ('function', 'F3'): [RET(B('-', B('*', P('x'), I(2)), P('y')))]},
    'in_conditions': {('function', 'F1'): [let('i', I(0)), let('s', I(0)),
                                           WH(B('<', FN('F2', x=V('i')), B('+', P('n'), I(3))),
                                              [IF(B('>', FN('F2', x=P('a')), P('b')), [inc('s', FN('F2', x=V('i')))], (), [inc('s')]), inc('i')]),
                                           RET(V('s'))],
                      ('function', 'F2'): [RET(B('+', P('x'), I(3)))]},
    'in_where': {('function', 'F1'): [('select', 'many', 'cs', 'Class', B('>', FN('F2', x=A(SEL, 'val')), P('a'))),
                                      ('select', 'any', 'c', 'Class', B('==', call('instance', SEL, 'Instance_Based_Operation', P1=I(0), P2=I(0)), P('b'))),
                                      RET(B('+', B('*', U('cardinality', V('cs')), I(10)), U('cardinality', V('c'))))],
                 ('function', 'F2'): [RET(B('*', P('x'), I(2)))],
                 ('instance', 'Instance_Based_Operation'): [RET(B('+', A(SELF, 'val'), B('+', P('P1'), P('P2'))))]},
    'instance_op': {('function', 'F1'): [('select', 'any', 'c', 'Class', None),
                                         let('r', call('instance', V('c'), 'Instance_Based_Operation', P1=P('a'), P2=P('b'))),
                                         ('select', 'many', 'cs', 'Class', None), let('s', I(0)),
                                         FE('k', 'cs', [inc('s', A(V('k'), 'val'))]), RET(B('+', B('*', V('r'), I(7)), V('s')))],
                    ('instance', 'Instance_Based_Operation'): [let('old', A(SELF, 'val')), ('assign', A(SELF, 'val'), P('P1')),
                                                               RET(B('+', V('old'), FN('F2', x=P('P2'))))],
                    ('function', 'F2'): [RET(B('-', P('x'), I(1)))]},
    'class_op': {('function', 'F1'): [RET(B('+', call('class', 'Class', 'Class_Based_Operation', P1=P('a'), P2=I(1)),
                                            call('class', 'Class', 'Class_Based_Operation', P2=P('b'), P1=I(2))))],
                 ('class', 'Class_Based_Operation'): [('create', 'c', 'Class'), seta('c', 'val', P('P1')), RET(B('*', P('P1'), P('P2')))]},
    'bridge': {('function', 'F1'): [let('x', call('bridge', 'MYEE', 'Br', x=P('a'))), ('callstmt', call('bridge', 'MYEE', 'Br', x=I(0))),
                                    RET(B('+', V('x'), call('bridge', 'MYEE', 'Br', x=P('b'))))],
               ('bridge', 'Br'): [IF(B('<', P('x'), I(0)), [RET(U('-', P('x')))]), RET(B('*', P('x'), I(2)))]},
    'derived': {('function', 'F1'): [('select', 'any', 'c', 'Class', None), let('d1', A(V('c'), 'Derived_Attribute')),
                                     seta('c', 'val', P('a')), let('d2', A(V('c'), 'Derived_Attribute')),
                                     seta('c', 'val', P('b')), RET(B('+', B('*', V('d1'), I(1000000)), B('+', B('*', V('d2'), I(1000)), A(V('c'), 'Derived_Attribute'))))],
                ('derived',): [('assign', A(SELF, 'Derived_Attribute'), B('+', A(SELF, 'val'), I(1)))]},
    'return_forms': {('function', 'F1'): [('callstmt', FN('F2', x=P('a'))), ('callstmt', FN('F3', x=P('a'))),
                                          ('select', 'any', 'c', 'Class', None), RET(A(V('c'), 'val'))],
                     # F2 executes a bare return on some paths, F3 no return at all
                     ('function', 'F2'): [('select', 'any', 'c', 'Class', None), seta('c', 'val', I(1)),
                                          IF(B('>', P('x'), I(0)), [RET()]), seta('c', 'val', I(2))],
                     ('function', 'F3'): [('select', 'any', 'c', 'Class', None), seta('c', 'val', B('+', A(V('c'), 'val'), I(10)))]},
    'op_calls_op': {('function', 'F1'): [('select', 'many', 'cs', 'Class', None), let('s', I(0)),
                                         FE('c', 'cs', [inc('s', call('instance', V('c'), 'Instance_Based_Operation', P1=P('a'), P2=P('n')))]),
                                         RET(V('s'))],
                    ('instance', 'Instance_Based_Operation'): [IF(B('<=', P('P2'), I(0)), [RET(A(SELF, 'val'))]),
                                                               RET(B('+', P('P1'), call('instance', SELF, 'Instance_Based_Operation',
                                                                                        P1=P('P1'), P2=B('-', P('P2'), I(1)))))]},
}
GRAPHS['side_effect_operands'] = {
    # both operands of and / or are evaluated (OAL has no short-circuit evaluation): the invoked function's
    # side effect (a created instance) must happen whatever the left operand is
    ('function', 'F1'): [let('x', B('and', B('>', P('a'), I(0)), FN('F2', x=I(1)))),
                         let('y', B('or', B('>', P('b'), I(0)), FN('F2', x=I(2)))),
                         ('select', 'many', 'cs', 'Class', None),
                         IF(B('and', V('x'), V('y')), [RET(B('+', U('cardinality', V('cs')), I(100)))]),
                         RET(U('cardinality', V('cs')))],
    ('function', 'F2'): [('create', 'c', 'Class'), seta('c', 'val', P('x')), RET(T)]}
GRAPHS['derived_other'] = {
    # a derived attribute whose body reads the SAME derived attribute of ANOTHER instance of the class
    # (strictly smaller val, so the recursion ends): self's result must not be confused with the other's
    ('function', 'F1'): [('select', 'many', 'cs', 'Class', None), let('s', I(0)),
                         FE('c', 'cs', [inc('s', B('*', A(V('c'), 'Derived_Attribute'), I(1)))]),
                         ('select', 'any', 'c0', 'Class', None), RET(B('+', B('*', V('s'), I(1000)), A(V('c0'), 'Derived_Attribute')))],
    ('derived',): [('assign', A(SELF, 'Derived_Attribute'), A(SELF, 'val')),
                   ('select', 'any', 'o', 'Class', B('<', A(SEL, 'val'), A(SELF, 'val'))),
                   IF(U('not_empty', V('o')),
                      [('assign', A(SELF, 'Derived_Attribute'), B('+', A(V('o'), 'Derived_Attribute'), B('*', A(SELF, 'val'), I(2))))])]}
GRAPHS['same_label'] = {
    # two bridges with the same name on different external entities (action labels are not unique)
    ('function', 'F1'): [let('x', call('bridge', 'MYEE', 'Br', x=P('a'))), let('y', call('bridge', 'OTHER', 'Br', x=P('a'))),
                         let('z', call('bridge', 'MYEE', 'Br', x=P('b'))), RET(B('+', B('*', V('x'), I(10000)), B('+', B('*', V('y'), I(100)), V('z'))))],
    ('bridge', 'Br'): [RET(B('+', P('x'), I(7)))],
    ('bridge2', 'Br'): [RET(B('-', P('x'), I(3)))]}
GRAPHS['return_in_loops'] = {
    # a return executed inside a while / for each / nested loop ends the INVOCATION (not just the loop):
    # the statements behind the loop (a fall-back return, a side effect) must not run
    ('function', 'F1'): [let('x', FN('F2', x=P('a'), lim=P('n'))),
                         let('y', call('class', 'Class', 'Class_Based_Operation', P1=P('b'), P2=P('a'))),
                         let('z', call('bridge', 'MYEE', 'Br', x=P('b'))),
                         ('select', 'many', 'cs', 'Class', None),
                         RET(B('+', B('*', V('x'), I(1000000)), B('+', B('*', V('y'), I(1000)), B('+', B('*', V('z'), I(10)), U('cardinality', V('cs'))))))],
    ('function', 'F2'): [let('i', I(0)),
                         WH(B('<', V('i'), I(3)), [IF(B('==', V('i'), P('lim')), [RET(B('+', B('*', V('i'), I(10)), I(5)))]), inc('i')]),
                         ('create', 'c', 'Class'), seta('c', 'val', P('x')),
                         RET(B('-', I(0), I(1)))],
    ('class', 'Class_Based_Operation'): [('select', 'many', 'cs', 'Class', None),
                                         FE('c', 'cs', [FE('d', 'cs', [IF(B('==', A(V('d'), 'val'), P('P1')), [RET(B('+', I(500), I(1)))])])]),
                                         RET(I(7))],
    ('bridge', 'Br'): [WH(T, [IF(B('>', P('x'), I(0)), [RET(I(1))]), RET(I(2))]), RET(I(3))]}
GRAPHS['multi_bridge'] = {
    # one external entity with three bridges whose rows are NOT in alphabetical order of their names
    ('function', 'F1'): [let('x', call('bridge', 'MYEE', 'Br', x=P('a'))), let('y', call('bridge', 'MYEE', 'Zeta', x=P('a'))),
                         let('z', call('bridge', 'MYEE', 'Alpha', x=P('b'))), ('callstmt', call('bridge', 'MYEE', 'Zeta', x=I(1)), 'bridge'),
                         RET(B('+', B('*', V('x'), I(10000)), B('+', B('*', V('y'), I(100)), V('z'))))],
    ('bridge', 'Br'): [RET(B('+', P('x'), I(1)))],
    ('bridge', 'Zeta'): [RET(B('*', P('x'), I(2)))],
    ('bridge', 'Alpha'): [RET(B('-', P('x'), I(3)))]}
GRAPHS['statement_keywords'] = {
    # invocation STATEMENTS with and without the transform / bridge keyword all execute their body once (side effect: val += ...)
    ('function', 'F1'): [('select', 'any', 'c', 'Class', None),
                         ('callstmt', call('class', 'Class', 'Class_Based_Operation', P1=I(1), P2=P('a')), 'transform'),
                         ('callstmt', call('class', 'Class', 'Class_Based_Operation', P1=I(10), P2=P('a'))),
                         ('callstmt', call('instance', V('c'), 'Instance_Based_Operation', P1=I(100), P2=P('b')), 'transform'),
                         ('callstmt', call('instance', V('c'), 'Instance_Based_Operation', P1=I(1000), P2=P('b'))),
                         ('callstmt', call('bridge', 'MYEE', 'Br', x=I(10000)), 'bridge'),
                         ('callstmt', call('bridge', 'MYEE', 'Br', x=I(100000))),
                         ('callstmt', FN('F2', x=I(1000000))),
                         RET(A(V('c'), 'val'))],
    ('class', 'Class_Based_Operation'): [('select', 'any', 'k', 'Class', None), seta('k', 'val', B('+', A(V('k'), 'val'), P('P1'))), RET(P('P2'))],
    ('instance', 'Instance_Based_Operation'): [('assign', A(SELF, 'val'), B('+', A(SELF, 'val'), P('P1'))), RET(P('P2'))],
    ('bridge', 'Br'): [('select', 'any', 'k', 'Class', None), seta('k', 'val', B('+', A(V('k'), 'val'), P('x')))],
    ('function', 'F2'): [('select', 'any', 'k', 'Class', None), seta('k', 'val', B('+', A(V('k'), 'val'), P('x')))]}
GRAPHS['derived_population'] = {
    # a derived attribute whose value depends on state OUTSIDE the receiving instance (the class population): it is
    # recomputed on every read, also when nothing was written to the instance in between
    ('function', 'F1'): [('select', 'any', 'c', 'Class', None), let('d1', A(V('c'), 'Derived_Attribute')),
                         ('create', 'c2', 'Class'), let('d2', A(V('c'), 'Derived_Attribute')),
                         ('create', 'c3', 'Class'), seta('c3', 'val', P('a')), let('d3', A(V('c'), 'Derived_Attribute')),
                         ('delete', 'c2'), let('d4', A(V('c'), 'Derived_Attribute')),
                         RET(B('+', B('*', V('d1'), I(1000000)), B('+', B('*', V('d2'), I(10000)), B('+', B('*', V('d3'), I(100)), V('d4')))))],
    ('derived',): [('select', 'many', 'everything', 'Class', None), ('select', 'many', 'big', 'Class', B('>', A(SEL, 'val'), I(5))),
                   ('assign', A(SELF, 'Derived_Attribute'), B('+', B('*', U('cardinality', V('everything')), I(10)), U('cardinality', V('big'))))]}
GRAPHS['nested_arguments'] = {
    # an invocation among the LATER arguments of another invocation: each parameter list is bound on its own
    ('function', 'F1'): [let('x', call('class', 'Class', 'Class_Based_Operation', P1=I(1), P2=call('class', 'Class', 'Class_Based_Operation', P1=P('a'), P2=P('b')))),
                         let('y', FN('F2', x=B('+', FN('F2', x=P('a')), FN('F2', x=I(3))))),
                         ('select', 'any', 'c', 'Class', None),
                         let('z', call('instance', V('c'), 'Instance_Based_Operation', P1=P('b'), P2=call('bridge', 'MYEE', 'Br', x=call('class', 'Class', 'Class_Based_Operation', P1=I(2), P2=P('a'))))),
                         RET(B('+', B('*', V('x'), I(1000000)), B('+', B('*', V('y'), I(1000)), V('z'))))],
    ('class', 'Class_Based_Operation'): [RET(B('+', B('*', P('P1'), I(100)), P('P2')))],
    ('instance', 'Instance_Based_Operation'): [RET(B('-', P('P1'), P('P2')))],
    ('bridge', 'Br'): [RET(B('+', P('x'), I(1)))],
    ('function', 'F2'): [RET(B('*', P('x'), I(2)))]}
G = GRAPHS[GRAPH]
STYLE = PARAMS.get('style', 'lower')
BP = None


def load_bp():
    """load the fixture, rename three functions to F1..F3, add a user EE with one bridge"""
    m = bridgepoint.load_metamodel(FIXTURE)
    syncs = {s.Name: s for s in m.select_many('S_SYNC')}
    for new, old in (('F1', 'Function'), ('F2', 'Test_If'), ('F3', 'Test_ElIf')):
        syncs[old].Name = new
    s_ee = m.new('S_EE', Name='My EE', Key_Lett='MYEE')
    pe = m.new('PE_PE')
    xtuml.relate(s_ee, pe, 8001)
    proto = m.select_any('S_SYNC')
    xtuml.relate(pe, one(proto).PE_PE[8001].EP_PKG[8000](), 8000)
    s_brg = m.new('S_BRG', Name='Br')
    xtuml.relate(s_brg, s_ee, 19)
    for extra in ('Zeta', 'Alpha'):        # row order Br, Zeta, Alpha: not alphabetical
        xtuml.relate(m.new('S_BRG', Name=extra), s_ee, 19)
    s_ee2 = m.new('S_EE', Name='Other EE', Key_Lett='OTHER')
    pe2 = m.new('PE_PE')
    xtuml.relate(s_ee2, pe2, 8001)
    xtuml.relate(pe2, one(proto).PE_PE[8001].EP_PKG[8000](), 8000)
    s_brg2 = m.new('S_BRG', Name='Br')
    xtuml.relate(s_brg2, s_ee2, 19)
    return m


def install(m, style=None):
    for key, body in list(G.items()):
        text = oalgen.to_text(body, style or STYLE)
        if key[0] == 'function':
            m.select_one('S_SYNC', lambda s: s.Name == key[1]).Action_Semantics_internal = text
        elif key[0] in ('class', 'instance'):
            m.select_one('O_TFR', lambda s: s.Name == key[1]).Action_Semantics_internal = text
        elif key[0] in ('bridge', 'bridge2'):
            ee = 'MYEE' if key[0] == 'bridge' else 'OTHER'
            m.select_one('S_BRG', lambda s: s.Name == key[1] and one(s).S_EE[19]().Key_Lett == ee).Action_Semantics_internal = text
        elif key[0] == 'derived':
            m.select_one('O_DBATTR').Action_Semantics_internal = text


def callables():
    """reference semantics of the call graph: every invocation evaluates the callee body in a new
    frame (own variables, parameters bound by name, self = receiver) and delivers the value of
    the return statement it executes (None otherwise)"""
    c = {}

    def mk(body):
        return lambda ev, vals, inst: oalgen.RefEval(ev.pop, vals, inst, ev.callables).run(body)
    for key, body in G.items():
        if key[0] == 'function':
            c[('function', None, key[1])] = mk(body)
        elif key[0] in ('class', 'instance'):
            c[(key[0], 'Class', key[1])] = mk(body)
        elif key[0] == 'bridge':
            c[('bridge', 'MYEE', key[1])] = mk(body)
        elif key[0] == 'bridge2':
            c[('bridge', 'OTHER', key[1])] = mk(body)
        elif key[0] == 'derived':
            def derived(ev, h, body=body):
                oalgen.RefEval(ev.pop, {}, h, ev.callables).run(body)
                return h.vals.pop('Derived_Attribute')
            c[('derived', 'Class', 'Derived_Attribute')] = derived
    return c


# nested parses (run_function / run_operation parse the callee body on every call) run untraced
_orig_parse = oal.parse


def _parse_untraced(text, label='<string>'):
    with notrace():
        return _orig_parse(text, label)


oal.parse = _parse_untraced
interpret.oal.parse = _parse_untraced


def check(a: int, b: int, n: int, v0: int, v1: int) -> bool:
    """
    pre: 0 <= n <= 4
    post: POST(_)
    """
    global LAST_DIFF, BP
    with notrace():
        if BP is None:
            BP = load_bp()
            install(BP)
        dom = ooaofooa.mk_component(BP)
        mc = dom.find_metaclass('Class')
        mc.append_attribute('val', 'integer')
        pop = oalgen.Pop()
        r0, r1 = dom.new('Class'), dom.new('Class')
        p0, p1 = pop.new('Class'), pop.new('Class')
    r0.val = v0; r1.val = v1
    p0.vals['val'] = v0; p1.vals['val'] = v1
    f1 = dom.find_symbol('F1')
    got = f1(a=a, b=b, n=n)
    case(GRAPH, STYLE)
    ref = oalgen.RefEval(pop, dict(a=a, b=b, n=n), None, callables())
    exp = ref.run(G[('function', 'F1')])
    if (got is None) != (exp is None) or (got is not None and not (got == exp)):
        LAST_DIFF = ('return value', repr(got), repr(exp)); return False
    gv = [i.val for i in dom.select_many('Class')]
    ev = [r.vals['val'] for r in pop.rows['Class']]
    if len(gv) != len(ev) or any(not (x == y) for x, y in zip(gv, ev)):
        LAST_DIFF = ('Class.val after the call', repr(gv), repr(ev)); return False
    return True


BP2 = None


def check_case(a: int, b: int, n: int, v0: int, v1: int) -> bool:
    """
    pre: 0 <= n <= 4
    post: POST(_)
    """
    # C08, differential inside the implementation: the same call graph with lower-case and with
    # STYLE-case keywords computes the same result and leaves the same attribute values
    global LAST_DIFF, BP, BP2
    outs = []
    for which in (0, 1):
        with notrace():
            if BP is None:
                BP = load_bp(); install(BP, 'lower')
                BP2 = load_bp(); install(BP2, STYLE)
            dom = ooaofooa.mk_component(BP if which == 0 else BP2)
            dom.find_metaclass('Class').append_attribute('val', 'integer')
            r0, r1 = dom.new('Class'), dom.new('Class')
        r0.val = v0; r1.val = v1
        got = dom.find_symbol('F1')(a=a, b=b, n=n)
        outs.append((got, [i.val for i in dom.select_many('Class')]))
    case('case-diff', GRAPH, STYLE)
    (g0, vals0), (g1, vals1) = outs
    if (g0 is None) != (g1 is None) or (g0 is not None and not (g0 == g1)):
        LAST_DIFF = ('result differs between lower-case and %s keywords' % STYLE, repr(g0), repr(g1)); return False
    if len(vals0) != len(vals1) or any(not (x == y) for x, y in zip(vals0, vals1)):
        LAST_DIFF = ('final model differs between lower-case and %s keywords' % STYLE, repr(vals0), repr(vals1)); return False
    return True
