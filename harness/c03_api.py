"""C03 (API route): creating the same rows through MetaModel.new with referential values
(referred rows first) or by cloning from the loaded metamodel yields the same links as loading.
Same key pools as c03_join; restricted to populations whose join respects the association's
single-valued end (the API refuses a second partner, the loader does not check)."""
import itertools
import xtuml
from hlib import POST, PARAMS, cs, case, known, notrace, stub_str
from modelsig import link_sig
import c03_join as J

stub_str()
LAST_DIFF = None
ROUTE = PARAMS.get('route', 'new')
LOADER = None
SCHEMA_LOADER = None
NCASES = J.NCASES


def check(ci: int) -> bool:
    """
    pre: 0 <= ci < NCASES
    post: POST(_)
    """
    global LAST_DIFF, LOADER, SCHEMA_LOADER
    ci = J.CASES[cs(ci, 0, NCASES - 1)]
    keys = []
    c = ci
    for _ in range(J.NROWS):
        keys.append(J.KP[c % J.NK]); c //= J.NK
    a_keys, b_keys, c_keys = keys[:J.NA], keys[J.NA:J.NA + J.NB], keys[J.NA + J.NB:]
    tys = [t for _, t in J.KEYS]
    # the API route refuses a second partner on the single-valued end: stay within multiplicity
    for bk in b_keys:
        if not any(J.is_null(v, t) for v, t in zip(bk, tys)):
            if sum(1 for ak in a_keys if ak == bk) > 1 or sum(1 for ck in c_keys if ck[0] == bk[0]) > 1:
                return None
    with notrace():
        if LOADER is None:
            LOADER = xtuml.ModelLoader()
            SCHEMA_LOADER = xtuml.ModelLoader()
            SCHEMA_LOADER.input(J.schema_text())
        text = J.schema_text()
        for n, k in enumerate(a_keys):
            text += J.row_text('A', '', n, k)
        for n, k in enumerate(c_keys):
            text += J.row_text('C', '', n, k)
        for n, k in enumerate(b_keys):
            text += J.row_text('B', 'A_', n, k)
        LOADER.statements = []
        LOADER.input(text)
        loaded = LOADER.build_metamodel()
        m = SCHEMA_LOADER.build_metamodel()
    if ROUTE == 'new':
        for n, k in enumerate(a_keys):
            m.new('A', Tag=n, **{name: v for (name, _), v in zip(J.KEYS, k)})
        for n, k in enumerate(c_keys):
            m.new('C', Tag=n, Id=k[0])
        for n, k in enumerate(b_keys):
            m.new('B', Tag=n, **{'A_' + name: v for (name, _), v in zip(J.KEYS, k)})
    else:
        for kind in ['A', 'C', 'B'] if J.SCHEMA == 'shared' else ['A', 'B']:
            for inst in loaded.select_many(kind):
                m.clone(inst)
    case(ROUTE, J.SCHEMA, a_keys, b_keys, c_keys)
    with notrace():
        got = link_sig(m)
        exp = link_sig(loaded)
    if got != exp:
        nulls = any(J.is_null(v, t) for bk in b_keys for v, t in zip(bk, tys))
        if nulls and known('C03/api-links-null-keys'):
            return None
        LAST_DIFF = ('links differ from loading', sorted(got ^ exp), a_keys, b_keys, c_keys); return False
    return True
