"""C07 (statements, optional words, layout): every program of the oalprogs core + carrier statements
for the remaining productions, printed with solver-chosen gaps (space, tab, newline, block comment
incl. multi-line, line comment) and optional-word choices (assign, loop, then, instances of), parses
to exactly the tree of its canonical text.  Text is realised; the parser runs outside the tracer:
this part only EXERCISES the parser on solver-enumerated inputs (no verdict over all layouts)."""
import re
from bridgepoint import oal
from hlib import POST, PARAMS, cs, case, known, notrace
import oalgen
import oalprogs
import c08_parse

LAST_DIFF = None
GAPS = [' ', '\t', '\n', '  \n\t ', ' /* c */ ', ' /* multi\n line * comment */ ', ' // line comment ; if\n', '\r\n',
        ' /** doc **/ ', ' /***/ ', ' /**** b * / ** ****/ ', ' /**/ ']
NG = len(GAPS)
PROGS = [oalgen.to_text(b) for _, b in oalprogs.PROGRAMS] + c08_parse.EXTRA
NP = len(PROGS)
TOKEN = re.compile(r'"[^"\n]*"|\'[^\']*\'|[A-Za-z_][A-Za-z_0-9]*|\d+\.\d+|\d+|::|==|!=|->|<=|>=|[-+*/%<>=().,;:\[\]|&^]|\s+')


def optional_words(text, mask):
    """bit 0: drop 'assign'; bit 1: add 'then' after if/elif conditions; bit 2: add 'loop' after while /
    for each headers; bit 3: drop 'instances of'"""
    lines = text.split('\n')
    out = []
    for ln in lines:
        st = ln.strip()
        if mask & 1 and st.startswith('assign '):
            ln = ln.replace('assign ', '', 1)
        if mask & 2 and (st.startswith('if ') or st.startswith('elif ')) and not st.endswith(';'):
            ln = ln + ' then'
        if mask & 4 and (st.startswith('while ') or st.startswith('for each ')) and not st.endswith(';'):
            ln = ln + ' loop'
        if mask & 8:
            ln = ln.replace(' from instances of ', ' from ')
        out.append(ln)
    return '\n'.join(out)


def relayout(text, g1, g2):
    """replace the whitespace between tokens by gap g1 / g2 alternately (joined tokens such as
    'end if' keep at least one blank); whitespace inside strings and phrases is untouched"""
    toks = TOKEN.findall(text)
    out = []
    k = 0
    for t in toks:
        if t.isspace():
            out.append(GAPS[g1] if k % 2 == 0 else GAPS[g2])
            k += 1
        else:
            out.append(t)
    return ''.join(out)


SHARD, NSHARDS = PARAMS.get('shard', 0), PARAMS.get('nshards', 1)
ALLCASES = [(p, m, a, b) for p in range(NP) for m in range(16) for a in range(NG) for b in range(NG)]
# a deterministic scramble so that every shard mixes programs, masks and gaps
CASES = sorted(ALLCASES, key=lambda c: (c[0] * 7 + c[1] * 13 + c[2] * 29 + c[3] * 31) % 9973)[SHARD::NSHARDS]
NC = len(CASES)


def check(ci: int) -> bool:
    """
    pre: 0 <= ci < NC
    post: POST(_)
    """
    global LAST_DIFF
    pi, mask, g1, g2 = CASES[cs(ci, 0, NC - 1)]
    with notrace():
        base = PROGS[pi]
        text = relayout(optional_words(base, mask), g1, g2)
        t0 = c08_parse.tree(oal.parse(base))
        try:
            t1 = c08_parse.tree(oal.parse(text))
        except oal.ParseException as e:
            case('layout', pi, mask, g1, g2)
            if re.search(r'(?i)\bend\s*(/\*|//)', text) and known('C07/comment-inside-end-keyword'):
                return None
            LAST_DIFF = ('layout variant does not parse', str(e), text); return False
    case('layout', pi, mask, g1, g2)
    if t0 != t1:
        LAST_DIFF = ('tree differs under layout / optional words', base, text); return False
    return True


EDGES = ['', ' ', '\n', '\t', '\r\n', '// comment up to the end of the text', ' // c ; x = 1;', '/* c */', '/* a\n b */', '// c\n', ' \n\n ']
NEDGE = len(EDGES)


def check_edges(pi: int, lead: int, tail: int) -> bool:
    """
    pre: 0 <= pi < NP and 0 <= lead < NEDGE and 0 <= tail < NEDGE
    post: POST(_)
    """
    # layout before the first and behind the last token (incl. a line comment that the text ends in)
    global LAST_DIFF
    pi = cs(pi, 0, NP - 1); lead = cs(lead, 0, NEDGE - 1); tail = cs(tail, 0, NEDGE - 1)
    with notrace():
        base = PROGS[pi]
        head = EDGES[lead]
        if head.startswith('//') or head.startswith(' //'):
            if not head.endswith('\n'):
                head = head + '\n'       # a leading line comment needs its line break, otherwise it swallows the program
        text = head + base.rstrip('\n') + EDGES[tail]
        t0 = c08_parse.tree(oal.parse(base))
        try:
            t1 = c08_parse.tree(oal.parse(text))
        except oal.ParseException as e:
            case('edges', pi, lead, tail)
            LAST_DIFF = ('text with layout before / behind the program does not parse', str(e), text); return False
    case('edges', pi, lead, tail)
    if t0 != t1:
        LAST_DIFF = ('tree differs under leading / trailing layout', base, text); return False
    return True
