from engine_api import Cond

PROPERTY = 'C12'
LEVEL = 'other'
ASSUMPTIONS = [
    'PARTIAL CLAIM: totality and time bound of the PLY scanner/driver on arbitrary text are NOT claimed (the scanner cannot be executed symbolically, DESIGN.md section 6); claimed are the build phase and the atomicity of input()',
    'build phase: value tokens from a pool of 21 tokens covering every lexical class (string, guid, number, fraction, negative, boolean words) in columns of 7 type names; statement objects are constructed directly',
    'token level (tok_*): PLY\'s scanner is replaced by a stub handing out solver-chosen tokens (kind from the loader\'s alphabet, text from a small pool of the kind\'s language, line 10+i, offset 100+i); the driver, tables, actions, p_error and input() are the real ones; bounds: <= 3 (4) tokens over all 27 kinds, <= 3..4 (4..5) tokens behind 7 pinned prefixes',
    'scanner_backtracking: strings of 1..6 characters per repetition; \\d / \\w / \\s modelled as their ASCII sets; a candidate counts only if the real loader does not scan the pumped text within 15 s',
    'input(): texts from a pool of 4 accepted and 6 rejected texts (lexical error, syntax error after valid statements, illegal cardinality raised inside a production, truncated input) parsed by the real PLY parser outside the tracer; plus a nondeterministic parser stub (returns a fresh list or raises ParsingException)',
]


def tok_conditions(tier, t):
    # token-level runs of the real table-driven parser (c12_tok.py)
    q = tier == 'quick'
    sym = ['number of tokens']
    csl = ['token kinds k0..k6 (lazy bisection, only viable prefixes are extended)', 'token texts from the pool of the kind (numbers 1 / 7, names M / MC / x, strings with / without content)']
    T = lambda k, v=None: [k, v if v is not None else k.capitalize()]
    n = 3 if q else 4
    out = [Cond('tok_any%d' % n, 'c12_tok.py', dict(alpha='full', n=n), func='check_tokens', timeout=t,
                bound='EVERY token string of up to %d tokens over the loader\'s whole alphabet of 27 token kinds' % n,
                symbolic=sym, case_split=csl)]
    pinned = [
        ('insert_values', [T('INSERT'), T('INTO'), T('ID', 'T'), T('VALUES'), T('LPAREN', '(')], 'values', 4 if q else 5, []),
        ('insert_named', [T('INSERT'), T('INTO'), T('ID', 'T'), T('LPAREN', '(')], 'small', 3 if q else 4, []),
        ('create_table', [T('CREATE'), T('TABLE'), T('ID', 'T'), T('LPAREN', '(')], 'ids', 4 if q else 5, []),
        ('create_index', [T('CREATE'), T('UNIQUE'), T('INDEX'), T('ID', 'I'), T('ON')], 'small', 3 if q else 4, []),
        ('rop_from_end', [T('CREATE'), T('ROP'), T('REF_ID'), T('RELID', 'R1'), T('FROM')], 'ends', 4 if q else 5,
         [T('TO'), T('CARDINALITY', '1C'), T('ID', 'B'), T('LPAREN', '('), T('ID', 'k'), T('RPAREN', ')'), T('SEMICOLON', ';')]),
        ('rop_to_end', [T('CREATE'), T('ROP'), T('REF_ID'), T('RELID', 'R1'), T('FROM'), T('ID', 'MC'), T('ID', 'A'), T('LPAREN', '('), T('ID', 'r'), T('RPAREN', ')'), T('PHRASE'), T('STRING', "'p q'"), T('TO')],
         'ends', 4 if q else 5, []),
        ('second_statement', [T('INSERT'), T('INTO'), T('ID', 'T'), T('VALUES'), T('LPAREN', '('), T('NUMBER', '1'), T('RPAREN', ')'), T('SEMICOLON', ';')], 'full', 3 if q else 4, []),
    ]
    for name, prefix, alpha, n, suffix in pinned:
        out.append(Cond('tok_%s' % name, 'c12_tok.py', dict(alpha=alpha, n=n, prefix=prefix, suffix=suffix), func='check_tokens', timeout=t,
                        bound='the tokens %s, then EVERY string of up to %d tokens over the alphabet %r%s'
                              % (' '.join(p[1] for p in prefix), n, alpha, (', then ' + ' '.join(p[1] for p in suffix)) if suffix else ''),
                        symbolic=sym, case_split=csl, twin=(name == 'insert_values')))
    return out


def conditions(tier, seed):
    t = 300 if tier == 'quick' else 3000
    return [
        Cond('build_value', 'c12_load.py', {}, func='check_value', timeout=t,
             bound='7 column types x 21 value tokens x positional/named insert; second column varied with the first fixed to UNIQUE_ID',
             case_split=['ti', 'ki', 'named', 't2', 'k2']),
        Cond('build_arity', 'c12_load.py', {}, func='check_arity', timeout=t,
             bound='INSERT with 0..3 names (optionally repeated) x 0..3 values into a class with 1..2 attributes',
             case_split=['nn', 'nv', 'na', 'dup']),
        Cond('build_keytype', 'c12_load.py', {}, func='check_keytype', timeout=t,
             bound='association whose referring / referred key attributes are declared with 11 type names (core, lower-case, unknown, empty) each x 7 value tokens x positional / named inserts',
             case_split=['ti', 'tj', 'vi', 'named']),
        Cond('build_schema', 'c12_load.py', {}, func='check_schema', timeout=t,
             bound='association naming defined/undefined classes and present/missing key attributes (3^2 x 4^2 combinations; the two classes have different attribute sets) x with/without rows x 12 unique-index targets',
             case_split=['ri', 'ui']),
    ] + [
        Cond('input_texts_s%d' % sh, 'c12_load.py', dict(shard=sh, nshards=16), func='check_input_seq', timeout=t,
             bound='every sequence of three input() calls from the pool of 15 texts on one loader (shard %d/16); builds before / after every rejected call and against a fresh loader' % sh,
             case_split=['si (sequence)'], realised=['texts'], twin=(sh == 0)) for sh in range(16)
    ] + tok_conditions(tier, t) + [
        Cond('scanner_backtracking', 'c13_redos.py', dict(scanner='load', property='C12'), kind='script', timeout=900,
             bound='every unbounded repetition in every t_* regex of the loader\'s scanner: no string of 1..6 characters is matched by two alternatives of the repeated group or readable as one and as several iterations (z3 regex theory); candidates replayed on the real loader with the witness pumped 48 times'),
        Cond('input_stub', 'c12_load.py', {}, func='check_input_stub', timeout=t,
             bound='three input() calls, parser stub outcomes: raise / return 0,1,2 statements',
             case_split=['o1', 'o2', 'o3']),
    ]
