from engine_api import Cond

PROPERTY = 'C12'
LEVEL = 'other'
ASSUMPTIONS = [
    'PARTIAL CLAIM: totality and time bound of the PLY scanner/driver on arbitrary text are NOT claimed (the scanner cannot be executed symbolically, DESIGN.md section 6); claimed are the build phase and the atomicity of input()',
    'build phase: value tokens from a pool of 21 tokens covering every lexical class (string, guid, number, fraction, negative, boolean words) in columns of 7 type names; statement objects are constructed directly',
    'input(): texts from a pool of 4 accepted and 6 rejected texts (lexical error, syntax error after valid statements, illegal cardinality raised inside a production, truncated input) parsed by the real PLY parser outside the tracer; plus a nondeterministic parser stub (returns a fresh list or raises ParsingException)',
]


def tok_conditions(tier, t):
    # token-level runs of the real table-driven parser (c12_tok.py)
    n = 5 if tier == 'quick' else 6
    out = [Cond('tok_any%d' % n, 'c12_tok.py', dict(alpha='full', n=n), func='check_tokens', timeout=t,
                bound='EVERY token string of up to %d tokens over the loader\'s whole alphabet of 27 token kinds, token texts unconstrained symbolic strings' % n,
                symbolic=['token texts v0..v6 (str, any code points, any length)', 'number of tokens'], case_split=['token kinds k0..k6 (lazy bisection)'])]
    return out


def conditions(tier, seed):
    t = 300 if tier == 'quick' else 3000
    return [
        Cond('build_value', 'c12_load.py', {}, func='check_value', timeout=t,
             bound='7 column types x 21 value tokens x positional/named insert; second column varied with the first fixed to UNIQUE_ID',
             case_split=['ti', 'ki', 'named', 't2', 'k2']),
        Cond('build_arity', 'c12_load.py', {}, func='check_arity', timeout=t,
             bound='INSERT with 0..3 names (optionally repeated) x 0..3 values into a class with 1..2 attributes',
             case_split=['nn', 'nv', 'na', 'dup']),
        Cond('build_keytype', 'c12_load.py', {}, func='check_keytype', timeout=t,
             bound='association whose referring / referred key attributes are declared with 11 type names (core, lower-case, unknown, empty) each x 7 value tokens x positional / named inserts',
             case_split=['ti', 'tj', 'vi', 'named']),
        Cond('build_schema', 'c12_load.py', {}, func='check_schema', timeout=t,
             bound='association naming defined/undefined classes and present/missing key attributes (3^2 x 4^2 combinations; the two classes have different attribute sets) x with/without rows x 12 unique-index targets',
             case_split=['ri', 'ui']),
    ] + [
        Cond('input_texts_s%d' % sh, 'c12_load.py', dict(shard=sh, nshards=16), func='check_input_seq', timeout=t,
             bound='every sequence of three input() calls from the pool of 13 texts on one loader (shard %d/16); builds before / after every rejected call and against a fresh loader' % sh,
             case_split=['si (sequence)'], realised=['texts'], twin=(sh == 0)) for sh in range(16)
    ] + tok_conditions(tier, t) + [
        Cond('scanner_backtracking', 'c13_redos.py', dict(scanner='load', property='C12'), kind='script', timeout=900,
             bound='every unbounded repetition in every t_* regex of the loader\'s scanner: no string of 1..6 characters is matched by two alternatives of the repeated group or readable as one and as several iterations (z3 regex theory); candidates replayed on the real loader with the witness pumped 48 times'),
        Cond('input_stub', 'c12_load.py', {}, func='check_input_stub', timeout=t,
             bound='three input() calls, parser stub outcomes: raise / return 0,1,2 statements',
             case_split=['o1', 'o2', 'o3']),
    ]
