#!/bin/sh
# usage: tools_try_mutant_wt.sh <Cxx> <patch.diff> [check args]   like tools_try_mutant.sh but in a scratch worktree (never touches /repo)
P=$1; PATCH=$2; shift 2
WT=/tmp/wt_try_$$
git -C /repo worktree add -q --detach $WT HEAD || exit 9
(cd $WT && git apply "$PATCH") || { echo "patch does not apply"; git -C /repo worktree remove --force $WT; exit 9; }
cd /verif && VERIF_REPO=$WT VERIF_OUT=/tmp/tryout_$$ ./check $P "$@" > /tmp/mutrun_$P.log 2>&1; RC=$?
git -C /repo worktree remove --force $WT; rm -rf /tmp/tryout_$$
echo "rc=$RC"; grep -c "^VIOLATION" /tmp/mutrun_$P.log; grep "^violation in\|HARNESS-ERROR\|tier=" /tmp/mutrun_$P.log | head -6
