#!/bin/sh
# runs every registered quick command in turn and validates the evidence files (used before committing evidence)
cd /verif
for P in C01 C02 C03 C04 C05 C06 C07 C08 C09 C10 C11 C12 C13 C14 C15 C16 C17 C18 C19 C20; do
  S=$(date +%s)
  ./check $P --tier quick > /tmp/quick_$P.log 2>&1; RC=$?
  E=$(date +%s)
  echo "$P rc=$RC $((E-S))s $(grep 'tier=' /tmp/quick_$P.log | tail -1)"
  grep "^INCONCLUSIVE\|^HARNESS-ERROR\|^VIOLATION" /tmp/quick_$P.log | head -5
done
/opt/veriftools/pyvenv/bin/python - <<'PY'
import json, jsonschema, glob
sch=json.load(open('/root/.vp/EVIDENCE.schema.json'))
for f in sorted(glob.glob('/verif/evidence/*.json')):
    e=json.load(open(f)); jsonschema.validate(e, sch)
    print(f.split('/')[-1], e['level'], e['coverage'].get('evaluations'), e['coverage'].get('distinct_nontrivial'), e['coverage'].get('exhaustive'), e['wall_s'])
PY
